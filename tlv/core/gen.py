"""Seeded generators. A case is rebuilt from (seed, idx, gen name) alone, so replay files are tiny."""
import zlib

import numpy as np


def rng(seed, idx, name=""):
    h = zlib.crc32(("%s|%s|%s" % (seed, idx, name)).encode())
    return np.random.RandomState(h % (2 ** 32))


def arr(rs, shape, dtype="float64", kind="gauss"):
    shape = tuple(int(s) for s in shape)
    dt = np.dtype(dtype)
    if kind == "gauss":
        a = rs.standard_normal(shape)
    elif kind == "int":
        a = rs.randint(-3, 4, size=shape).astype(float)
    elif kind == "nonneg":
        a = rs.uniform(0.0, 1.0, size=shape)
    elif kind == "pos":
        a = rs.uniform(0.1, 1.0, size=shape)
    elif kind == "sparse":
        a = rs.standard_normal(shape) * (rs.uniform(size=shape) < 0.3)
    elif kind == "scaled":
        a = rs.standard_normal(shape) * 10.0 ** rs.randint(-3, 4)
    else:
        raise ValueError(kind)
    if dt.kind == "c":
        if kind == "int":
            b = rs.randint(-3, 4, size=shape).astype(float)
        else:
            b = rs.standard_normal(shape)
        a = a + 1j * b
    return np.asarray(a).astype(dt)


def choice(rs, seq):
    return seq[rs.randint(len(seq))]


def shape(rs, order, lo=1, hi=4):
    return [int(rs.randint(lo, hi + 1)) for _ in range(order)]


def orth(rs, n, k, dtype="float64"):
    """n x k matrix with orthonormal columns (k <= n)"""
    q, _ = np.linalg.qr(rs.standard_normal((n, max(k, 1))))
    return q[:, :k].astype(dtype)
