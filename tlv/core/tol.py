"""The tolerance policy (DESIGN.md §1.5) in one place.

All bounds are backward-error shaped: a computed sum of products may differ from the exact one by at
most gamma_n * (the same contraction evaluated on absolute values); we allow c * eps * A with a
generous constant c that depends only on the number of terms, never on the magnitude of entries.
"""
import numpy as np


def eps_of(dtype):
    dt = np.dtype(dtype)
    if dt.kind in "fc":
        return float(np.finfo(dt).eps)
    return float(np.finfo(np.float64).eps)


def work_dtype(*arrays):
    """the floating dtype an honest implementation computes in: the widest floating dtype among inputs"""
    best = None
    for a in arrays:
        if a is None:
            continue
        dt = np.asarray(a).dtype
        if dt.kind not in "fc":
            dt = np.dtype(np.float64)
        e = np.finfo(dt).eps
        if best is None or e < best:
            best = e
    return best if best is not None else eps_of(np.float64)


def formula_close(got, ref, absbound, eps, nterms=1, c=8.0, floor=0.0):
    """|got - ref| <= c*(nterms+8)*eps*absbound elementwise (+floor). Returns (ok, worst_ratio)."""
    got = np.asarray(got)
    ref = np.asarray(ref)
    if got.shape != ref.shape:
        return False, float("inf")
    if got.size == 0:
        return True, 0.0
    if not np.all(np.isfinite(got)):
        return False, float("inf")
    # underflow floor: products of tiny factors flush to zero below the smallest normal number of the working dtype
    tiny = 1.2e-38 if eps > 1e-10 else 2.3e-308
    lim = c * (nterms + 8) * eps * np.asarray(absbound) + floor + 1e6 * tiny
    err = np.abs(got.astype(np.complex128) - ref.astype(np.complex128))
    with np.errstate(divide="ignore", invalid="ignore"):
        ratio = np.where(err == 0, 0.0, err / np.where(lim > 0, lim, np.finfo(float).tiny))
    worst = float(np.max(ratio))
    return bool(worst <= 1.0), worst


def sq_close(rep_sq, true_sq, scale_sq, eps, c=1e3):
    """|rep^2 - true^2| <= c*eps*scale_sq (squares compared, see §1.5)."""
    if not (np.isfinite(rep_sq) and np.isfinite(true_sq)):
        return False
    return abs(rep_sq - true_sq) <= c * eps * scale_sq
