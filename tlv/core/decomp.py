"""Shared decomposition workload: data generators, uniform runners for every iterative algorithm, independent
dense reconstructions and true errors, prefix-run recorder (n_iter_max = 1..K with a fixed seed).

Nothing here judges anything: property modules (C06, C07, C08, C10, C14, C16, C18) evaluate their own oracles on the
records produced here.
"""
import copy

import numpy as np

from . import gen, ref

CP_ALGOS = ["parafac", "nn_parafac", "nn_parafac_hals", "constrained_parafac", "randomised_parafac"]
ALGOS = CP_ALGOS + ["tucker", "nn_tucker", "nn_tucker_hals", "parafac2", "tr_als", "cmtf"]


# ----------------------------------------------------------------------------------------------
# data
def make_data(rs, algo, dt="float64", cls=None, order=None, rank_hint=None):
    """returns dict(kind, X | slices | (X3, M), cls, shape)"""
    cls = cls or gen.choice(rs, ["generic", "lowrank", "nonneg", "integer", "nonneg-lowrank"])
    if algo in ("nn_parafac", "nn_tucker") and cls in ("generic", "integer", "lowrank"):
        # multiplicative updates are only meaningful for non-negative data; signed data is still legal input for C10
        pass
    if algo == "parafac2":
        I = int(rs.randint(2, 5))
        K = int(rs.randint(3, 6))
        R = rank_hint or int(rs.randint(1, 4))
        J = [int(rs.randint(max(R, 2), 7)) for _ in range(I)]
        if rs.rand() < 0.3:
            J = [J[0]] * I
        if cls == "sparseC-noisy":
            # a PARAFAC2 model whose C factor has exact zeros, plus noise: extrapolated C iterates overshoot below zero
            R = max(R, 2)
            J = [max(j, R) for j in J]
            A = rs.uniform(0.5, 2, (I, R))
            B = rs.standard_normal((R, R)) + 2 * np.eye(R)
            C = np.abs(rs.standard_normal((K, R))) * (rs.uniform(size=(K, R)) < 0.5)
            P = [gen.orth(rs, j, R) for j in J]
            slices = [(P[i] @ B * A[i]) @ C.T + 0.1 * rs.standard_normal((J[i], K)) for i in range(I)]
        elif "lowrank" in cls:
            A = rs.uniform(0.5, 2, (I, R))
            B = rs.standard_normal((R, R)) + 2 * np.eye(R)
            C = np.abs(rs.standard_normal((K, R))) if "nonneg" in cls else rs.standard_normal((K, R))
            P = [gen.orth(rs, j, R) for j in J]
            slices = [(P[i] @ B * A[i]) @ C.T for i in range(I)]
            if "nonneg" in cls:
                slices = [np.abs(s) for s in slices]
        elif cls == "integer":
            slices = [rs.randint(-3, 4, size=(j, K)).astype(float) for j in J]
        elif cls == "nonneg":
            slices = [rs.uniform(0, 1, (j, K)) for j in J]
        else:
            slices = [rs.standard_normal((j, K)) for j in J]
        scale = float(gen.choice(rs, [1.0, 1.0, 1.0, 1e-3, 1e3] if str(dt) == "float64" else [1.0, 1.0, 1e-2, 10.0])) if cls != "integer" else 1.0
        return {"kind": "slices", "slices": [(s * scale).astype(dt) for s in slices], "cls": cls if scale == 1.0 else cls + "*%g" % scale, "shape": [list(s.shape) for s in slices]}
    if algo == "cmtf":
        shp = gen.shape(rs, 3, 2, 6)
        m = int(rs.randint(2, 6))
        R = rank_hint or int(rs.randint(1, 4))
        if "lowrank" in cls:
            A, B, C, V = (rs.standard_normal((s, R)) for s in shp + [m])
            X = np.einsum("ir,jr,kr->ijk", A, B, C)
            M = A @ V.T
        else:
            X, M = rs.standard_normal(shp), rs.standard_normal((shp[0], m))
        if cls == "integer":
            X, M = np.round(X * 2), np.round(M * 2)
        if "nonneg" in cls:
            X, M = np.abs(X), np.abs(M)
        scale = float(gen.choice(rs, [1.0, 1.0, 1.0, 1e-3, 1e3] if str(dt) == "float64" else [1.0, 1.0, 1e-2, 10.0])) if cls != "integer" else 1.0
        return {"kind": "coupled", "X": (X * scale).astype(dt), "M": (M * scale).astype(dt), "cls": cls if scale == 1.0 else cls + "*%g" % scale, "shape": [shp, [shp[0], m]]}
    order = order or int(rs.randint(2, 5))
    if algo in ("constrained_parafac",):
        order = max(order, 3)
    if algo in ("tr_als",):
        order = max(order, 3)
    shp = gen.shape(rs, order, 2, 6 if order < 4 else 4)
    # shapes with coincidences a derived quantity may key on: all modes equal, two modes equal, a square unfolding
    coincidence = rs.rand()
    if coincidence < 0.12:
        shp = [shp[0]] * order
    elif coincidence < 0.24 and order >= 2:
        i_, j_ = rs.choice(order, size=2, replace=False)
        shp[int(j_)] = shp[int(i_)]
    elif coincidence < 0.30 and order == 3:
        shp = [4, 2, 2] if rs.rand() < 0.5 else [2, 6, 3]      # mode-0 / mode-1 unfolding is square
    if "lowrank" in cls:
        R = rank_hint or int(rs.randint(1, 4))
        fs = [(np.abs(rs.standard_normal((s, R))) + 0.1 if "nonneg" in cls else rs.standard_normal((s, R))) for s in shp]
        X = ref.cp_dense(None, fs)[0]
    elif cls == "integer":
        X = rs.randint(-3, 4, size=shp).astype(float)
        if not np.any(X):
            X[(0,) * order] = 1.0
    elif cls == "nonneg":
        X = rs.uniform(0, 1, shp)
    elif cls == "sparse-nonneg":
        X = rs.uniform(0, 1, shp) * (rs.uniform(size=shp) < 0.3)
        if not np.any(X):
            X[(0,) * order] = 1.0
    elif cls == "allneg":
        X = -rs.uniform(0.1, 1, shp)
    else:
        X = rs.standard_normal(shp)
    # data in small or large units (norm << 1 or >> 1): unit mix-ups in error bookkeeping only show there
    scale = float(gen.choice(rs, [1.0, 1.0, 1.0, 1e-3, 1e3] if str(dt) == "float64" else [1.0, 1.0, 1e-2, 10.0])) if cls not in ("integer",) else 1.0
    return {"kind": "tensor", "X": (X * scale).astype(dt), "cls": cls if scale == 1.0 else cls + "*%g" % scale, "shape": shp}


# ----------------------------------------------------------------------------------------------
# independent reconstructions
def dense(algo, decomp):
    """dense tensor (or list of slices / pair) represented by a returned decomposition, via ref only"""
    if algo in CP_ALGOS:
        if isinstance(decomp, tuple) and len(decomp) == 2 and not _is_cp(decomp):
            cp, sparse = decomp  # sparse-plus-low-rank
            return ref.cp_dense(cp[0], [np.asarray(f) for f in cp[1]])[0] + ref.hp(np.asarray(sparse))
        w, f = decomp
        return ref.cp_dense(None if w is None else np.asarray(w), [np.asarray(x) for x in f])[0]
    if algo in ("tucker", "nn_tucker", "nn_tucker_hals"):
        c, f = decomp
        return ref.tucker_dense(np.asarray(c), [np.asarray(x) for x in f])[0]
    if algo == "tr_als":
        return ref.tr_dense([np.asarray(c) for c in decomp])[0]
    if algo == "parafac2":
        w, (A, B, C), P = decomp
        out = []
        for i in range(len(P)):
            ops = [np.asarray(P[i]), np.asarray(B), np.asarray(A)[i], np.asarray(C)] + ([np.asarray(w)] if w is not None else [])
            out.append(ref.es("jr,rs,s,ks" + (",s" if w is not None else "") + "->jk", *ops)[0])
        return out
    if algo == "cmtf":
        tcp, mcp = decomp
        return (ref.cp_dense(tcp[0], [np.asarray(f) for f in tcp[1]])[0], ref.cp_dense(mcp[0], [np.asarray(f) for f in mcp[1]])[0])
    raise ValueError(algo)


def _is_cp(obj):
    """(weights, factors) vs (cp_tensor, sparse_component)"""
    a, b = obj
    return isinstance(b, (list, tuple))


def _absify(o):
    if isinstance(o, np.ndarray):
        return np.abs(o)
    if isinstance(o, tuple):
        return tuple(_absify(x) for x in o)
    if isinstance(o, list):
        return [_absify(x) for x in o]
    return o


def true_error(algo, data, decomp):
    """(true error value, scale): scale is the magnitude of the terms an algebraic shortcut
    ||X||^2 + ||M||^2 - 2<X,M> (with ||M||^2 from Gram matrices) has to add up, evaluated on ABSOLUTE values of the
    factors, i.e. || |X| + M_abs ||^2 / ||X||^2 -- this stays honest for degenerate models whose components cancel."""
    val, _ = _true_error(algo, data, decomp)
    dabs = dense(algo, _absify(_plain_np(decomp)))
    if algo == "parafac2":
        X = [np.abs(ref.hp(s)) for s in data["slices"]]
        nx = sum(ref.frob_sq(x) for x in X)
        return val, sum(ref.frob_sq(x + m) for x, m in zip(X, dabs)) / nx
    if algo == "cmtf":
        X, M = np.abs(ref.hp(data["X"])), np.abs(ref.hp(data["M"]))
        return val, ref.frob_sq(X + dabs[0]) + ref.frob_sq(M + dabs[1])
    X = np.abs(ref.hp(data["X"]))
    return val, ref.frob_sq(X + dabs) / ref.frob_sq(X)


def _plain_np(o):
    if isinstance(o, (tuple, list, np.ndarray)) or o is None:
        return o
    return _plain(o)


def _true_error(algo, data, decomp):
    """the error value the algorithm documents, recomputed from scratch; returns (value, scale_sq) where scale_sq is the
    magnitude against which squared differences are to be judged (||X||^2 + ||model||^2 + 2|<X,model>|)/||X||^2 style"""
    d = dense(algo, decomp)
    if algo == "parafac2":
        X = [ref.hp(s) for s in data["slices"]]
        nx = sum(ref.frob_sq(x) for x in X)
        res = sum(ref.frob_sq(x - m) for x, m in zip(X, d))
        nm = sum(ref.frob_sq(m) for m in d)
        ip = sum(abs(float(np.sum(x * m))) for x, m in zip(X, d))
        return np.sqrt(res / nx), (nx + nm + 2 * ip) / nx
    if algo == "cmtf":
        X, M = ref.hp(data["X"]), ref.hp(data["M"])
        val = ref.frob_sq(X - d[0]) + ref.frob_sq(M - d[1])
        sc = ref.frob_sq(X) + ref.frob_sq(d[0]) + ref.frob_sq(M) + ref.frob_sq(d[1])
        return val, sc  # documented squared (unnormalised) form
    X = ref.hp(data["X"])
    nx = ref.frob_sq(X)
    res = ref.frob_sq(X - d)
    return np.sqrt(res / nx), (nx + ref.frob_sq(d) + 2 * abs(float(np.sum(X * d)))) / nx


# ----------------------------------------------------------------------------------------------
# runners
def snapshot(decomp):
    """deep copy of a decomposition as plain nested tuples/lists of numpy arrays"""
    return copy.deepcopy(_plain(decomp))


def _plain(o):
    import tensorly as tl
    from tensorly.cp_tensor import CPTensor
    from tensorly.tucker_tensor import TuckerTensor
    from tensorly.parafac2_tensor import Parafac2Tensor
    from tensorly.tr_tensor import TRTensor
    from tensorly.tt_tensor import TTTensor
    if isinstance(o, CPTensor):
        return (np.array(o.weights), [np.array(f) for f in o.factors])
    if isinstance(o, TuckerTensor):
        return (np.array(o.core), [np.array(f) for f in o.factors])
    if isinstance(o, Parafac2Tensor):
        return (np.array(o.weights), tuple(np.array(f) for f in o.factors), [np.array(p) for p in o.projections])
    if isinstance(o, (TRTensor, TTTensor)):
        return [np.array(f) for f in o.factors]
    if isinstance(o, tuple):
        return tuple(_plain(x) for x in o)
    if isinstance(o, list):
        return [_plain(x) for x in o]
    if isinstance(o, np.ndarray):
        return np.array(o)
    return o


ROUTES = {"function": 0, "class": 0}
CLASS_OF = {"parafac": "CP", "nn_parafac": "CP_NN", "nn_parafac_hals": "CP_NN_HALS", "constrained_parafac": "ConstrainedCP", "randomised_parafac": "RandomizedCP",
            "tucker": "Tucker", "nn_tucker": "Tucker_NN", "nn_tucker_hals": "Tucker_NN_HALS", "parafac2": "Parafac2", "tr_als": "TensorRingALS"}


def _run_class(algo, data, rank, n_iter_max, opts, seed, tol, init, callback):
    """the same run through the estimator class (the other public entry point); None when the class does not take these options"""
    import inspect
    from tensorly import decomposition as D
    from tensorly.decomposition import _tucker
    name = CLASS_OF[algo]
    Cls = getattr(D, name, None) or getattr(_tucker, name)
    params = inspect.signature(Cls.__init__).parameters
    kw = dict(opts)
    kw["n_iter_max"] = n_iter_max
    if "random_state" in params:
        kw["random_state"] = seed
    if init is not None:
        kw["init"] = init
    elif algo == "parafac2":
        kw.setdefault("init", "random")
    elif algo == "randomised_parafac":
        kw.setdefault("init", "random")
    elif algo != "tr_als":
        kw.setdefault("init", "svd")
    if tol is not None:
        kw["tol_outer" if algo == "constrained_parafac" else "tol"] = tol
    if callback is not None:
        kw["callback"] = callback
    if algo == "randomised_parafac":
        kw.setdefault("n_samples", 20)
    if any(k not in params for k in kw):
        return None
    if "return_errors" in params and (seed // 4) % 2:
        kw["return_errors"] = True      # every other class run leaves the estimator's own default
    else:
        ROUTES["class-default-return"] = ROUTES.get("class-default-return", 0) + 1
    est = Cls(rank, **kw)
    out = est.fit_transform(data["slices"] if algo == "parafac2" else data["X"])
    if type(out) is tuple and len(out) == 2 and isinstance(out[1], list):
        dec, errs = out
    else:
        dec, errs = out, getattr(est, "errors_", None)
    if algo == "tr_als":
        errs = None
    return {"decomp": dec, "errors": None if errs is None else list(errs), "route": "class"}


def run(algo, data, rank, n_iter_max, opts=None, seed=0, tol=None, init=None, callback=None):
    """Run one algorithm through one of its public entry points (the function, or for a quarter of the seeds the estimator class).
    Returns dict(decomp=<returned object>, errors=list|None)."""
    import tensorly as tl
    from tensorly import decomposition as D
    from tensorly.decomposition import _cmtf_als
    opts = dict(opts or {})
    if algo != "cmtf" and seed % 8 == 5 and "verbose" not in opts:
        # the chatty setting runs extra statements in every sweep (formatting iterates, differences of the error list):
        # it must not change anything that is returned
        import contextlib, io
        ROUTES["verbose"] = ROUTES.get("verbose", 0) + 1
        with contextlib.redirect_stdout(io.StringIO()):
            return run(algo, data, rank, n_iter_max, dict(opts, verbose=1), seed, tol, init, callback)
    if seed % 16 == 9 and not opts.get("_plain_tenalg"):
        # the same run with the other tensor-algebra backend selected (einsum formulations of the mode products, Khatri-Rao and
        # MTTKRP): a property of a decomposition does not depend on which of the two computes its products
        from tensorly import tenalg
        prev = tenalg.get_backend()
        ROUTES["einsum-tenalg"] = ROUTES.get("einsum-tenalg", 0) + 1
        tenalg.set_backend("einsum")
        try:
            return run(algo, data, rank, n_iter_max, dict(opts, _plain_tenalg=True), seed, tol, init, callback)
        finally:
            tenalg.set_backend(prev)
    opts.pop("_plain_tenalg", None)
    if algo in CLASS_OF and seed % 4 == 0:
        r = _run_class(algo, data, rank, n_iter_max, opts, seed, tol, init, callback)
        if r is not None:
            ROUTES["class"] += 1
            return r
    ROUTES["function"] += 1
    kw = {}
    if tol is not None:
        kw["tol"] = tol
    X = data.get("X")
    if algo == "parafac":
        out = D.parafac(X, rank, n_iter_max=n_iter_max, init=init if init is not None else opts.pop("init", "svd"), random_state=seed,
                        return_errors=True, callback=callback, **kw, **opts)
        if type(out) is not tuple:  # return_errors=True promises (decomposition, errors) on every path; C14 reports "bare_return"
            return {"decomp": out, "errors": None, "bare_return": True}
        return {"decomp": out[0], "errors": list(out[1])}
    if algo == "nn_parafac":
        out = D.non_negative_parafac(X, rank, n_iter_max=n_iter_max, init=init if init is not None else opts.pop("init", "svd"), random_state=seed,
                                     return_errors=True, **kw, **opts)
        return {"decomp": out[0], "errors": list(out[1])}
    if algo == "nn_parafac_hals":
        out = D.non_negative_parafac_hals(X, rank, n_iter_max=n_iter_max, init=init if init is not None else opts.pop("init", "svd"), random_state=seed,
                                          return_errors=True, **kw, **opts)
        return {"decomp": out[0], "errors": list(out[1])}
    if algo == "constrained_parafac":
        if tol is not None:
            kw = {"tol_outer": tol}
        out = D.constrained_parafac(X, rank, n_iter_max=n_iter_max, init=init if init is not None else opts.pop("init", "svd"), random_state=seed,
                                    return_errors=True, **kw, **opts)
        return {"decomp": out[0], "errors": list(out[1])}
    if algo == "randomised_parafac":
        ns = opts.pop("n_samples", 20)
        out = D.randomised_parafac(X, rank, ns, n_iter_max=n_iter_max, init=opts.pop("init", "random"), random_state=seed,
                                   return_errors=True, callback=callback, **kw, **opts)
        return {"decomp": out[0], "errors": list(out[1])}
    if algo == "tucker":
        out = D.tucker(X, rank, n_iter_max=n_iter_max, init=init if init is not None else opts.pop("init", "svd"), random_state=seed, return_errors=True, **kw, **opts)
        return {"decomp": out[0], "errors": list(out[1])}
    if algo == "nn_tucker":
        out = D.non_negative_tucker(X, rank, n_iter_max=n_iter_max, init=init if init is not None else opts.pop("init", "svd"), random_state=seed, return_errors=True, **kw, **opts)
        return {"decomp": out[0], "errors": list(out[1])}
    if algo == "nn_tucker_hals":
        out = D.non_negative_tucker_hals(X, rank, n_iter_max=n_iter_max, init=init if init is not None else opts.pop("init", "svd"), random_state=seed, return_errors=True, **kw, **opts)
        return {"decomp": out[0], "errors": list(out[1])}
    if algo == "parafac2":
        out = D.parafac2(data["slices"], rank, n_iter_max=n_iter_max, init=init if init is not None else opts.pop("init", "random"), random_state=seed,
                         return_errors=True, **kw, **opts)
        return {"decomp": out[0], "errors": list(out[1])}
    if algo == "tr_als":
        out = D.tensor_ring_als(X, rank, n_iter_max=n_iter_max, random_state=seed, callback=callback, **kw, **opts)
        return {"decomp": out, "errors": None}
    if algo == "cmtf":
        out = _cmtf_als.coupled_matrix_tensor_3d_factorization(data["X"], data["M"], rank, n_iter_max=n_iter_max, init=opts.pop("init", "svd"), **kw, **opts)
        return {"decomp": (out[0], out[1]), "errors": list(out[2])}
    raise ValueError(algo)


def option_sets(rs, algo, order):
    """one option set for the algorithm, drawn from the enumerated classes of DESIGN §2 C06"""
    if algo == "parafac":
        o = {"init": gen.choice(rs, ["svd", "random"])}
        which = gen.choice(rs, ["plain", "plain", "normalize", "linesearch", "sparsity", "l2_reg", "normalize+linesearch"])
        if "normalize" in which:
            o["normalize_factors"] = True
        if "linesearch" in which:
            o["linesearch"] = True
        if which == "sparsity":
            o["sparsity"] = float(gen.choice(rs, [0.1, 0.3]))
        if which == "l2_reg":
            o["l2_reg"] = float(gen.choice(rs, [0.01, 0.5]))
        if rs.rand() < 0.3:
            o["cvg_criterion"] = "rec_error"
        return which, o
    if algo == "nn_parafac":
        o = {"init": gen.choice(rs, ["svd", "random"])}
        which = gen.choice(rs, ["plain", "normalize"])
        if which == "normalize":
            o["normalize_factors"] = True
        return which, o
    if algo == "nn_parafac_hals":
        o = {"init": gen.choice(rs, ["svd", "random"])}
        which = gen.choice(rs, ["plain", "plain", "normalize", "nn_modes", "sparsity"])
        if which == "normalize":
            o["normalize_factors"] = True
        if which == "nn_modes":
            k = int(rs.randint(0, order))
            o["nn_modes"] = set(rs.choice(order, size=k, replace=False).tolist()) if k else None
        if which == "sparsity":
            o["sparsity_coefficients"] = [float(gen.choice(rs, [0.01, 0.1]))] * order
        return which, o
    if algo == "constrained_parafac":
        o = {"init": gen.choice(rs, ["svd", "random"])}
        which = gen.choice(rs, ["non_negative", "l1_reg", "l2_reg", "l2_square_reg", "unimodality", "normalize", "simplex",
                                "normalized_sparsity", "soft_sparsity", "smoothness", "monotonicity", "hard_sparsity"])
        val = {"non_negative": True, "l1_reg": 0.05, "l2_reg": 0.05, "l2_square_reg": 0.05, "unimodality": True, "normalize": True,
               "simplex": 2.0, "normalized_sparsity": 3, "soft_sparsity": 2.0, "smoothness": 0.1, "monotonicity": True, "hard_sparsity": 4}[which]
        o[which] = val
        o["n_iter_max_inner"] = int(gen.choice(rs, [3, 10]))
        return which, o
    if algo == "randomised_parafac":
        return "plain", {"init": gen.choice(rs, ["random", "svd"]), "n_samples": int(gen.choice(rs, [10, 40])), "max_stagnation": 0}
    if algo == "tucker":
        return "plain", {"init": gen.choice(rs, ["svd", "random"])}
    if algo == "nn_tucker":
        which = gen.choice(rs, ["plain", "normalize"])
        o = {"init": gen.choice(rs, ["svd", "random"])}
        if which == "normalize":
            o["normalize_factors"] = True
        return which, o
    if algo == "nn_tucker_hals":
        which = gen.choice(rs, ["fista", "fista", "active_set", "normalize", "sparsity", "core-sparsity"])
        o = {"init": gen.choice(rs, ["svd", "random"]), "algorithm": "active_set" if which == "active_set" else "fista"}
        if which == "normalize":
            o["normalize_factors"] = True
        if which == "sparsity":       # l1 penalties on (some of) the factors: the reported value stays the reconstruction error
            o["sparsity_coefficients"] = [float(gen.choice(rs, [0.05, 0.5])) if rs.rand() < 0.7 else None for _ in range(order)]
            if not any(o["sparsity_coefficients"]):
                o["sparsity_coefficients"][0] = 0.1
        if which == "core-sparsity":
            o["core_sparsity_coefficient"] = float(gen.choice(rs, [0.05, 0.5]))
        return which, o
    if algo == "parafac2":
        which = gen.choice(rs, ["plain", "linesearch", "nn_modes", "nn_modes+linesearch", "normalize"])
        o = {"init": gen.choice(rs, ["random", "svd"]), "linesearch": "linesearch" in which, "n_iter_parafac": int(gen.choice(rs, [2, 5]))}
        if "nn_modes" in which:
            o["nn_modes"] = gen.choice(rs, [[0, 2], [0], [2]])
        if which == "normalize":
            o["normalize_factors"] = True
        return which, o
    if algo == "tr_als":
        which = gen.choice(rs, ["lstsq", "normal_eq"])
        return which, {"ls_solve": which}
    if algo == "cmtf":
        which = gen.choice(rs, ["plain", "normalize"])
        return which, ({"normalize_factors": True} if which == "normalize" else {})
    raise ValueError(algo)


def pick_rank(rs, algo, data):
    if algo in ("tucker", "nn_tucker", "nn_tucker_hals"):
        shp = data["shape"]
        rk = [int(rs.randint(1, min(s, 3) + 1)) for s in shp]
        if rs.rand() < 0.15:       # full multilinear rank in one mode (rank equal to the mode size)
            m_ = int(rs.randint(len(shp)))
            rk[m_] = min(shp[m_], 4)
        return rk
    if algo == "tr_als":
        n = len(data["shape"])
        # bond ranks 1-3, deliberately including ranks a neighbouring core cannot carry (rank-deficient design matrices)
        r = [int(rs.randint(1, 4 if rs.rand() < 0.4 else 3)) for _ in range(n)]
        if rs.rand() < 0.25:
            # a bond larger than its neighbour can carry: r[k] > shape[k-1] * r[k-1]
            k = int(rs.randint(1, n))
            if data["shape"][k - 1] <= 3:
                r[k - 1] = 1
                r[k] = data["shape"][k - 1] + 1
        return r + [r[0]]
    if algo == "parafac2":
        K = data["slices"][0].shape[1]
        minJ = min(s.shape[0] for s in data["slices"])
        return int(rs.randint(1, min(3, K, minJ) + 1))
    if data["kind"] == "tensor" and rs.rand() < 0.15:
        small = [s_ for s_ in data["shape"] if s_ <= 4]
        if small:
            return int(gen.choice(rs, small))     # rank equal to a mode size
    return int(rs.randint(1, 4))
