"""known_findings.json: committed, read-only at run time.

Entries: {"property": "C12", "key": "<mechanism key or fnmatch pattern>", "status": "open"|"fixed",
          "commit": "<sha>" (fixed only), "what": "<what fails>"}
Only status "open" suppresses (prints KNOWN-FINDING, exit 0). A "fixed" entry suppresses nothing.
Keys are mechanisms (property : entry point : clause : input class), never seeds/hashes.
"""
import fnmatch
import json
import os


def load(path):
    if not os.path.exists(path):
        return []
    with open(path) as f:
        data = json.load(f)
    return data.get("findings", [])


def match(entries, pid, key):
    for e in entries:
        if e.get("status") != "open" or e.get("property") != pid:
            continue
        if e["key"] == key or fnmatch.fnmatchcase(key, e["key"]):
            return e
    return None
