"""Independent reference formulas. Only numpy.einsum with explicit subscripts, numpy.linalg and
explicit loops are used here — never a tensorly function."""
import itertools
from math import prod

import numpy as np

L = "abcdefghijklmnopqrstuvwxyzABCDEFGHIJKLMNOPQRSTUVWXYZ"


def hp(a):
    """high-precision copy (float64 / complex128)"""
    a = np.asarray(a)
    if a.dtype.kind == "c":
        return a.astype(np.complex128)
    return a.astype(np.float64)


def es(expr, *ops):
    """einsum in high precision; returns (value, same contraction on absolute values)"""
    H = [hp(o) for o in ops]
    val = np.einsum(expr, *H, optimize=False)
    ab = np.einsum(expr, *[np.abs(h) for h in H], optimize=False)
    return val, ab


# ----------------------------------------------------------------------------------------------
# C02 formulas
def mode_dot(T, M, mode, transpose=False):
    nd = T.ndim
    t = L[:nd]
    if M.ndim == 2:
        if transpose:
            M = np.conj(M.T)
        out = t.replace(t[mode], "Z")
        return es("%s,Z%s->%s" % (t, t[mode], out), T, M) + (T.shape[mode],)
    out = t.replace(t[mode], "")
    return es("%s,%s->%s" % (t, t[mode], out), T, M) + (T.shape[mode],)


def multi_mode_dot(T, ops, modes=None, skip=None, transpose=False, conj_vectors=True):
    """sequential definition: tensor x_{m} op for every (op, m), m referring to modes of the ORIGINAL tensor.
    `skip` indexes the list sorted by mode (== the list itself for sorted/default modes)."""
    nd = T.ndim
    if modes is None:
        modes = list(range(len(ops)))
    pairs = sorted(zip(range(len(ops)), modes), key=lambda x: x[1])
    t = list(L[:nd])
    out = list(t)
    operands, subs = [T], ["".join(t)]
    nterms = 1
    nxt = nd
    for i, (k, m) in enumerate(pairs):
        if skip is not None and i == skip:
            continue
        op = ops[k]
        if op.ndim == 2:
            if transpose:
                op = np.conj(op.T)
            new = L[26 + nxt]
            nxt += 1
            operands.append(op)
            subs.append(new + t[m])
            out[m] = new
        else:
            if transpose and conj_vectors:
                op = np.conj(op)
            operands.append(op)
            subs.append(t[m])
            out[m] = ""
        nterms *= T.shape[m]
    expr = ",".join(subs) + "->" + "".join(out)
    return es(expr, *operands) + (nterms,)


def kronecker(mats, skip_matrix=None, reverse=False):
    if skip_matrix is not None:
        mats = [m for i, m in enumerate(mats) if i != skip_matrix]
    if reverse:
        mats = mats[::-1]
    n = len(mats)
    rows = L[:n]
    cols = L[26:26 + n]
    expr = ",".join(r + c for r, c in zip(rows, cols)) + "->" + rows + cols
    v, a = es(expr, *mats)
    shp = (prod(m.shape[0] for m in mats), prod(m.shape[1] for m in mats))
    return v.reshape(shp), a.reshape(shp), 1


def khatri_rao(mats, weights=None, skip_matrix=None, mask=None):
    if skip_matrix is not None:
        mats = [m for i, m in enumerate(mats) if i != skip_matrix]
    n = len(mats)
    rows = L[:n]
    ops = list(mats)
    expr = ",".join(r + "R" for r in rows)
    if weights is not None:
        expr += ",R"
        ops.append(weights)
    if mask is not None:
        expr += "," + rows
        ops.append(np.asarray(mask).reshape([m.shape[0] for m in mats]))
    expr += "->" + rows + "R"
    v, a = es(expr, *ops)
    R = mats[0].shape[1]
    return v.reshape(-1, R), a.reshape(-1, R), 1


def inner(t1, t2, n_modes=None):
    if n_modes is None:
        s = L[:t1.ndim]
        return es("%s,%s->" % (s, s), t1, t2) + (t1.size,)
    off = t1.ndim - n_modes
    s1 = L[:t1.ndim]
    s2 = "".join(L[off + i] if i < n_modes else L[26 + i] for i in range(t2.ndim))
    out = s1[:off] + s2[n_modes:]
    return es("%s,%s->%s" % (s1, s2, out), t1, t2) + (prod(t1.shape[off:]),)


def outer(tensors, batched=False):
    subs, out = [], ""
    k = 0
    for t in tensors:
        if batched:
            s = "Z" + L[k:k + t.ndim - 1]
            k += t.ndim - 1
            out += s[1:]
        else:
            s = L[k:k + t.ndim]
            k += t.ndim
            out += s
        subs.append(s)
    expr = ",".join(subs) + "->" + ("Z" if batched else "") + out
    return es(expr, *tensors) + (1,)


def tensordot(t1, t2, modes1, modes2, batch1=(), batch2=()):
    """out axes: non-contracted modes of t1 in order (batch modes stay in place), then free modes of t2 in order"""
    s1 = list(L[:t1.ndim])
    s2 = list(L[26:26 + t2.ndim])
    for m1, m2 in zip(list(modes1) + list(batch1), list(modes2) + list(batch2)):
        s2[m2] = s1[m1]
    out = [s for i, s in enumerate(s1) if i not in modes1] + [s for i, s in enumerate(s2) if i not in list(modes2) + list(batch2)]
    expr = "%s,%s->%s" % ("".join(s1), "".join(s2), "".join(out))
    return es(expr, t1, t2) + (prod(t1.shape[m] for m in modes1),)


def mttkrp(T, weights, factors, mode):
    nd = T.ndim
    t = L[:nd]
    ops, subs = [T], [t]
    for i, f in enumerate(factors):
        if i != mode:
            ops.append(np.conj(f))
            subs.append(t[i] + "R")
    if weights is not None:
        ops.append(weights)
        subs.append("R")
    expr = ",".join(subs) + "->" + t[mode] + "R"
    return es(expr, *ops) + (T.size // T.shape[mode],)


def higher_order_moment(X, order):
    """mean over samples n of x_n (x) ... (x) x_n (order times); x_n = X[n] (any order)"""
    k = X.ndim - 1
    subs, out = [], ""
    for o in range(order):
        s = L[o * k:(o + 1) * k]
        subs.append("Z" + s)
        out += s
    v, a = es(",".join(subs) + "->" + out, *([X] * order))
    return v / X.shape[0], a / X.shape[0], X.shape[0]


# ----------------------------------------------------------------------------------------------
# C03 formulas (dense reconstructions)
def cp_dense(weights, factors, mask=None):
    n = len(factors)
    rows = L[:n]
    ops = list(factors)
    expr = ",".join(r + "R" for r in rows)
    if weights is not None:
        expr += ",R"
        ops.append(weights)
    if mask is not None:
        expr += "," + rows
        ops.append(np.broadcast_to(mask, [f.shape[0] for f in factors]))
    v, a = es(expr + "->" + rows, *ops)
    return v, a, factors[0].shape[1]


def tucker_dense(core, factors, modes=None):
    nd = core.ndim
    c = list(L[:nd])
    out = list(c)
    ops, subs = [core], ["".join(c)]
    if modes is None:
        modes = list(range(len(factors)))
    for f, m in zip(factors, modes):
        new = L[26 + m]
        ops.append(f)
        subs.append(new + c[m])
        out[m] = new
    v, a = es(",".join(subs) + "->" + "".join(out), *ops)
    return v, a, core.size


def tt_dense(cores):
    n = len(cores)
    subs, out = [], ""
    for k in range(n):
        subs.append(L[26 + k] + L[k] + L[26 + k + 1])
        out += L[k]
    expr = ",".join(subs) + "->" + L[26] + out + L[26 + n]
    v, a = es(expr, *cores)
    nterms = prod(c.shape[0] for c in cores)
    return v, a, nterms  # includes boundary axes (size 1 each for valid TT)


def tr_dense(cores):
    n = len(cores)
    subs, out = [], ""
    for k in range(n):
        left = L[26 + k]
        right = L[26 + k + 1] if k < n - 1 else L[26]
        subs.append(left + L[k] + right)
        out += L[k]
    v, a = es(",".join(subs) + "->" + out, *cores)
    return v, a, prod(c.shape[0] for c in cores)


def tt_matrix_dense(cores):
    """cores[k]: (r_k, in_k? ...). TensorLy convention: core shape (r_k, left_k, right_k, r_{k+1});
    dense tensor of shape (left_1..left_n, right_1..right_n)."""
    n = len(cores)
    subs, lefts, rights = [], "", ""
    for k in range(n):
        subs.append(L[26 + k] + L[k] + L[n + k] + L[26 + k + 1])
        lefts += L[k]
        rights += L[n + k]
    expr = ",".join(subs) + "->" + L[26] + lefts + rights + L[26 + n]
    v, a = es(expr, *cores)
    return v, a, prod(c.shape[0] for c in cores)


def frob_sq(x):
    x = hp(x)
    return float(np.sum(np.abs(x) ** 2))


# ----------------------------------------------------------------------------------------------
# index maps (shared with C01): mode-m unfolding of a dense array by explicit index arithmetic
def unfold(A, mode):
    A = np.asarray(A)
    shape = A.shape
    others = [k for k in range(A.ndim) if k != mode]
    ncols = prod(shape[k] for k in others)
    out = np.empty((shape[mode], ncols), dtype=A.dtype)
    for idx in np.ndindex(*shape):
        col = 0
        for k in others:
            col = col * shape[k] + idx[k]
        out[idx[mode], col] = A[idx]
    return out
