"""Parent side of a check: plan cases, shard them over worker subprocesses, aggregate what the
monitors observed, classify violations against known_findings.json, write evidence, exit code.

Exit codes: 0 held on everything explored (known findings are printed, not alarms);
            1 at least one violation not listed as an open known finding (VIOLATION line printed);
            2 inconclusive (a worker died, a floor of observations was not met, harness error).
"""
import importlib
import json
import os
import re
import subprocess
import sys
import tempfile
import time
import shutil

from . import findings

HERE = os.path.dirname(os.path.dirname(os.path.dirname(os.path.abspath(__file__))))  # /verif
NCORES = min(16, os.cpu_count() or 1)


def repo_path():
    return os.environ.get("VERIF_REPO", "/repo")


def load_prop(pid):
    return importlib.import_module("tlv.props." + pid.lower())


def _merge_counts(dst, src):
    for k, v in src.items():
        if isinstance(v, dict):
            _merge_counts(dst.setdefault(k, {}), v)
        else:
            dst[k] = dst.get(k, 0) + v


def _safe(s):
    return re.sub(r"[^A-Za-z0-9_.-]+", "_", s)[:120]


def run(pid, tier, seed, replay=None, nshards=None, keep=False, only_gen=None):
    t0 = time.time()
    pid = pid.upper()
    prop = load_prop(pid)
    nshards = nshards or NCORES
    workdir = tempfile.mkdtemp(prefix="tlv_%s_" % pid, dir="/dev/shm" if os.path.isdir("/dev/shm") else None)
    try:
        return _run(pid, prop, tier, seed, replay, nshards, workdir, t0, only_gen)
    finally:
        if not keep:
            shutil.rmtree(workdir, ignore_errors=True)


def _run(pid, prop, tier, seed, replay, nshards, workdir, t0, only_gen):
    env = dict(os.environ)
    env.setdefault("PYTHONDONTWRITEBYTECODE", "1")
    env.setdefault("PYTHONHASHSEED", "0")
    for v in ("OMP_NUM_THREADS", "OPENBLAS_NUM_THREADS", "MKL_NUM_THREADS"):
        env.setdefault(v, "1")
    env["VERIF_REPO"] = repo_path()
    env["PYTHONPATH"] = HERE + os.pathsep + env.get("PYTHONPATH", "")

    if replay:
        with open(replay) as f:
            rp = json.load(f)
        plan_file = os.path.join(workdir, "plan.json")
        with open(plan_file, "w") as f:
            json.dump([rp["case"]], f)
        nshards = 1
        tier = rp.get("tier", tier)
        seed = rp.get("seed", seed)
    else:
        plan_file = ""
    budget = getattr(prop, "WALL_BUDGET", {"quick": 600, "thorough": 3600}).get(tier, 600)

    procs = []
    for sh in range(nshards):
        out = os.path.join(workdir, "shard%d.json" % sh)
        cmd = [sys.executable, "-m", "tlv.worker", pid, tier, str(seed), str(sh), str(nshards), out, plan_file,
               only_gen or ""]
        log = open(os.path.join(workdir, "shard%d.log" % sh), "w")
        procs.append((sh, out, subprocess.Popen(cmd, env=env, stdout=log, stderr=subprocess.STDOUT, cwd=HERE), log))

    deadline = time.time() + budget
    dead = []
    for sh, out, p, log in procs:
        try:
            p.wait(timeout=max(1.0, deadline - time.time()))
        except subprocess.TimeoutExpired:
            p.kill()
            p.wait()
            dead.append((sh, "wall-clock watchdog (%ds) fired" % budget))
        log.close()
        if p.returncode not in (0, None) and (sh, ) not in [(d[0],) for d in dead]:
            dead.append((sh, "worker exit status %s" % p.returncode))

    agg = {"planned": 0, "done": 0, "counters": {}, "status": {}, "nontrivial": set(), "violations": {},
           "nontrivial_n": 0, "samples": [], "harness_errors": [], "inconclusive": {}, "skipped": {}, "extra": {}}
    for sh, out, p, log in procs:
        if not os.path.exists(out):
            dead.append((sh, "no result file"))
            continue
        with open(out) as f:
            r = json.load(f)
        agg["planned"] += r["planned"]
        agg["done"] += r["done"]
        _merge_counts(agg["counters"], r["counters"])
        _merge_counts(agg["status"], r["status"])
        _merge_counts(agg["inconclusive"], r["inconclusive"])
        _merge_counts(agg["skipped"], r["skipped"])
        agg["nontrivial"].update(r["nontrivial"])
        agg["nontrivial_n"] += r.get("nontrivial_n", 0)
        for k, v in r["violations"].items():
            e = agg["violations"].setdefault(k, {"count": 0, "witnesses": []})
            e["count"] += v["count"]
            e["witnesses"].extend(v["witnesses"])
        agg["samples"].extend(r["samples"])
        agg["harness_errors"].extend(r["harness_errors"])
        for k, v in r.get("extra", {}).items():
            agg["extra"].setdefault(k, []).extend(v)

    wall = time.time() - t0
    # ---- classify violations ------------------------------------------------------------------
    kf = findings.load(os.path.join(HERE, "known_findings.json"))
    alarms, known = [], []
    for key in sorted(agg["violations"]):
        v = agg["violations"][key]
        ent = findings.match(kf, pid, key)
        if ent is not None:
            known.append((key, ent, v))
        else:
            alarms.append((key, v))

    reasons = []
    if dead:
        reasons.append("workers lost: %s" % dead)
    if agg["harness_errors"]:
        reasons.append("%d harness errors (first: %s)" % (len(agg["harness_errors"]), agg["harness_errors"][0][:2000]))
    if not replay:
        if agg["done"] < agg["planned"]:
            reasons.append("only %d of %d planned cases finished" % (agg["done"], agg["planned"]))
        floors = getattr(prop, "floors", lambda tier: {})(tier)
        for name, mn in floors.items():
            got = _lookup(agg["counters"], name)
            if got < mn:
                reasons.append("floor not met: %s observed %d < %d" % (name, got, mn))
        ninc = sum(agg["inconclusive"].values())
        max_inc = getattr(prop, "MAX_INCONCLUSIVE_FRACTION", 0.05)
        if agg["done"] and ninc > max_inc * max(agg["done"], 1):
            reasons.append("too many inconclusive cases: %d of %d (%s)" % (ninc, agg["done"], agg["inconclusive"]))
        if hasattr(prop, "inconclusive_reasons"):
            reasons.extend(prop.inconclusive_reasons(agg, tier))

    # ---- evidence -----------------------------------------------------------------------------
    cov = {
        "evaluations": agg["done"],
        "distinct_nontrivial": len(agg["nontrivial"]) + agg["nontrivial_n"],
        "rule": getattr(prop, "RULE", ""),
        "samples": agg["samples"][:getattr(prop, "N_SAMPLES", 8)],
        "exhaustive": bool(getattr(prop, "EXHAUSTIVE", False)),
        "observations": agg["counters"],
        "case_status": agg["status"],
        "skipped": agg["skipped"],
        "inconclusive": agg["inconclusive"],
        "known_findings_matched": {k: v["count"] for k, e, v in known},
        "violation_keys": {k: v["count"] for k, v in alarms},
        "bounds": getattr(prop, "bounds", lambda tier: {})(tier),
        "verdict": "violated" if alarms else ("inconclusive" if reasons else "held-on-observed"),
        "inconclusive_reasons": reasons,
        "repo": repo_path(),
    }
    if hasattr(prop, "evidence_extra"):
        cov.update(prop.evidence_extra(agg, tier))
    ev = {
        "property_id": pid,
        "tier": tier,
        "seed": int(seed),
        "level": getattr(prop, "LEVEL", "exploration"),
        "coverage": cov,
        "assumptions": getattr(prop, "ASSUMPTIONS", []),
        "wall_s": round(wall, 2),
        "violations": sum(v["count"] for k, v in alarms),
    }
    if not replay and not only_gen:
        # the tools that run a check against a patched scratch copy (tools/with_patch.sh, seed_eval.py, revert_check.sh) redirect
        # the evidence so that /verif/evidence only ever describes runs against the repository itself
        evdir = os.environ.get("TLV_EVIDENCE_DIR") or os.path.join(HERE, "evidence")
        os.makedirs(evdir, exist_ok=True)
        tmp = os.path.join(evdir, ".%s.tmp" % pid)
        with open(tmp, "w") as f:
            json.dump(ev, f, indent=1, sort_keys=True, default=str)
        os.replace(tmp, os.path.join(evdir, "%s.json" % pid))

    # ---- report -------------------------------------------------------------------------------
    print("[%s] tier=%s seed=%s repo=%s cases=%d/%d distinct_nontrivial=%d wall=%.1fs" % (
        pid, tier, seed, repo_path(), agg["done"], agg["planned"], len(agg["nontrivial"]) + agg["nontrivial_n"], wall))
    print("[%s] observed: %s" % (pid, json.dumps(_flat(agg["counters"]), sort_keys=True)[:3000]))
    if agg["skipped"]:
        print("[%s] skipped (outside stated domain): %s" % (pid, agg["skipped"]))
    if agg["inconclusive"]:
        print("[%s] inconclusive cases: %s" % (pid, agg["inconclusive"]))
    by_entry = {}
    for key, ent, v in known:
        e = by_entry.setdefault(ent["key"], {"ent": ent, "count": 0, "keys": []})
        e["count"] += v["count"]
        e["keys"].append(key)
    for ek in sorted(by_entry):
        e = by_entry[ek]
        print("KNOWN-FINDING: property=%s %s [entry=%s, matched keys=%s, seen %d times this run]" % (
            pid, e["ent"]["what"], ek, ",".join(e["keys"])[:300], e["count"]))
    for key, v in alarms:
        rdir = os.path.join(HERE, "replays", pid)
        os.makedirs(rdir, exist_ok=True)
        path = os.path.join(rdir, _safe(key) + ".json")
        w = v["witnesses"][0] if v["witnesses"] else {}
        with open(path, "w") as f:
            json.dump({"property": pid, "key": key, "tier": tier, "seed": int(seed), "count": v["count"],
                       "case": w.get("case"), "what": w.get("what"), "witness": w.get("witness"),
                       "more_witnesses": v["witnesses"][1:4]}, f, indent=1, default=str)
        print("VIOLATION property=%s replay=%s" % (pid, path))
        print("   key=%s count=%d what=%s" % (key, v["count"], str(w.get("what"))[:1500]))
    if replay:
        print("[%s] replay verdict: %s" % (pid, "VIOLATED" if (alarms or known) else "ok"))
    if alarms:
        return 1
    if reasons:
        for r in reasons:
            print("INCONCLUSIVE: %s" % r)
        return 2
    print("[%s] held on everything observed" % pid)
    return 0


def _lookup(d, dotted):
    cur = d
    for part in dotted.split("/"):
        if not isinstance(cur, dict) or part not in cur:
            return 0
        cur = cur[part]
    if isinstance(cur, dict):
        return sum(v for v in cur.values() if isinstance(v, (int, float)))
    return cur


def _flat(d, prefix=""):
    out = {}
    for k, v in d.items():
        if isinstance(v, dict):
            out.update(_flat(v, prefix + k + "/"))
        else:
            out[prefix + k] = v
    return out
