"""Monitor installation without editing the repository: identity-based re-binding.

install(target, make_wrapper) replaces every binding of `target` reachable from loaded tensorly modules
(module globals created by `from x import f`, class attributes, staticmethod objects registered on tenalg / backend
classes) by make_wrapper(target). Returns the number of bindings replaced; every wrapper should count its evaluations,
and a run whose monitor was never evaluated is inconclusive, not 'held'.
"""
import sys
import types


def _tensorly_modules():
    return [m for n, m in list(sys.modules.items()) if (n == "tensorly" or n.startswith("tensorly.")) and isinstance(m, types.ModuleType)]


def install(target, make_wrapper):
    wrapper = make_wrapper(target)
    wrapper.__wrapped_by_tlv__ = target
    n = 0
    seen_classes = set()
    for mod in _tensorly_modules():
        d = getattr(mod, "__dict__", {})
        for name, val in list(d.items()):
            if val is target:
                try:
                    setattr(mod, name, wrapper)
                    n += 1
                except Exception:  # noqa
                    pass
            elif isinstance(val, type) and val not in seen_classes:
                seen_classes.add(val)
                for cname, cval in list(vars(val).items()):
                    if cval is target:
                        setattr(val, cname, wrapper)
                        n += 1
                    elif isinstance(cval, staticmethod) and cval.__func__ is target:
                        setattr(val, cname, staticmethod(wrapper))
                        n += 1
        # module classes (tensorly.backend / tensorly.tenalg are modules whose class is a manager class)
        cls = type(mod)
        if cls not in seen_classes and cls is not types.ModuleType:
            seen_classes.add(cls)
            for cname, cval in list(vars(cls).items()):
                if isinstance(cval, staticmethod) and cval.__func__ is target:
                    setattr(cls, cname, staticmethod(wrapper))
                    n += 1
    return n, wrapper


def public_functions(module_names, predicate=None):
    """[(qualified name, function)] for plain functions defined in the given tensorly modules"""
    import importlib
    out = []
    for mn in module_names:
        mod = importlib.import_module(mn)
        for name, val in vars(mod).items():
            if isinstance(val, types.FunctionType) and val.__module__ == mod.__name__ and not name.startswith("_"):
                if predicate is None or predicate(mn, name, val):
                    out.append(("%s.%s" % (mn, name), val))
    return out
