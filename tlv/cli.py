import argparse
import os
import sys

from .core import runner


def main():
    ap = argparse.ArgumentParser(prog="check")
    ap.add_argument("property")
    ap.add_argument("--tier", default=os.environ.get("VERIF_TIER", "quick"), choices=["quick", "thorough"])
    ap.add_argument("--seed", type=int, default=int(os.environ.get("VERIF_SEED", "0") or 0))
    ap.add_argument("--replay", default=None)
    ap.add_argument("--shards", type=int, default=None)
    ap.add_argument("--gen", default=None, help="restrict to one generator (debugging; evidence is still written)")
    ap.add_argument("--keep", action="store_true")
    a = ap.parse_args()
    sys.exit(runner.run(a.property, a.tier, a.seed, replay=a.replay, nshards=a.shards, keep=a.keep, only_gen=a.gen))


if __name__ == "__main__":
    main()
