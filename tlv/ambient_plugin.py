"""pytest plugin (loaded with `-p tlv.ambient_plugin`): runs the repository's own tests under input-independent monitors.

Installed monitors (sound for any call whatsoever):
  * the C15 mutation sanitizer on every wrapped public entry point (depth-0 = the test is the caller),
  * the C16 tracer: a call given an integer random_state must leave numpy's global generator untouched.
Observations and violations are dumped as JSON to $TLV_AMBIENT_OUT at session end. Used by the thorough tier of C15/C16
as additional executions (hundreds of realistic call shapes for free).
"""
import json
import os

import numpy as np


class Recorder:
    pid = "C15"

    def __init__(self):
        self.counters, self.violations, self.nontrivial = {}, {}, set()
        self.case = {"gen": "ambient-test-suite"}

    def count(self, name, n=1):
        self.counters[name] = self.counters.get(name, 0) + n

    def nontriv(self, d):
        self.nontrivial.add(str(d))

    def sample(self, *a, **k):
        pass

    def violation(self, key, what, witness=None):
        e = self.violations.setdefault(key, {"count": 0, "what": what, "witness": None})
        e["count"] += 1
        if e["witness"] is None:
            e["witness"] = {"what": what, "detail": str(witness)[:800], "test": os.environ.get("PYTEST_CURRENT_TEST")}


REC = Recorder()


def pytest_configure(config):
    from tlv.props import c15
    from tlv.core import probe
    c15.setup_worker(REC, "thorough", 0)
    # C16 tracer on the seed-accepting decomposition entry points
    import inspect
    import tensorly  # noqa
    from tensorly import decomposition as D, random as R

    def rng_tracer(name):
        def make(fn):
            try:
                sig = inspect.signature(fn)
            except (TypeError, ValueError):
                return fn
            if "random_state" not in sig.parameters:
                return fn

            def wrapper(*a, **k):
                try:
                    rsv = sig.bind(*a, **k).arguments.get("random_state")
                except TypeError:
                    rsv = None
                if not (isinstance(rsv, int) and not isinstance(rsv, bool)):
                    return fn(*a, **k)
                st0 = np.random.get_state()
                try:
                    return fn(*a, **k)
                finally:
                    st1 = np.random.get_state()
                    REC.count("rng_traced_calls")
                    if not (st0[0] == st1[0] and np.array_equal(st0[1], st1[1]) and st0[2:] == st1[2:]):
                        REC.violation("C16:%s:global-state-touched:ambient" % name, "%s(random_state=%r) advanced numpy's global generator" % (name, rsv))
            for attr in ("__module__", "__name__", "__qualname__", "__doc__"):
                try:
                    setattr(wrapper, attr, getattr(fn, attr))
                except AttributeError:
                    pass
            wrapper.__wrapped__ = fn
            wrapper.__signature__ = sig
            return wrapper
        return make
    for modname in ("tensorly.decomposition._cp", "tensorly.decomposition._nn_cp", "tensorly.decomposition._constrained_cp", "tensorly.decomposition._tucker",
                    "tensorly.decomposition._parafac2", "tensorly.decomposition._tr_als", "tensorly.random.base", "tensorly.tenalg.svd"):
        import importlib
        import types
        mod = importlib.import_module(modname)
        for nm, val in list(vars(mod).items()):
            if isinstance(val, types.FunctionType) and getattr(val, "__wrapped_by_tlv__", None) is None and "random_state" in (getattr(val, "__code__", None).co_varnames if hasattr(val, "__code__") else ()):
                if val.__module__ == mod.__name__:
                    probe.install(val, rng_tracer(nm))


def pytest_sessionfinish(session, exitstatus):
    out = os.environ.get("TLV_AMBIENT_OUT")
    if out:
        suffix = os.environ.get("PYTEST_XDIST_WORKER", "main")
        with open("%s.%s" % (out, suffix), "w") as f:
            json.dump({"counters": REC.counters, "violations": REC.violations, "nontrivial": sorted(REC.nontrivial)}, f)
