"""Worker: runs one shard of a property's planned cases in a fresh interpreter against VERIF_REPO."""
import faulthandler
import hashlib
import json
import os
import signal
import sys
import time
import traceback


class CaseTimeout(Exception):
    pass


class Ctx:
    """What a property module sees while running one case. All verdicts and observation counters
    go through here so that the parent can report what the monitors actually saw."""

    def __init__(self, pid):
        self.pid = pid
        self.counters = {}
        self.status = {}
        self.inconclusive = {}
        self.skipped = {}
        self.nontrivial = set()
        self.violations = {}
        self.samples = []
        self.harness_errors = []
        self.extra = {}
        self.case = None
        self._case_viol = 0

    # -- observations --------------------------------------------------------------------------
    def count(self, name, n=1):
        cur = self.counters
        parts = name.split("/")
        for p in parts[:-1]:
            cur = cur.setdefault(p, {})
        cur[parts[-1]] = cur.get(parts[-1], 0) + n

    def nontriv(self, descriptor):
        h = hashlib.md5(json.dumps(descriptor, sort_keys=True, default=str).encode()).hexdigest()[:14]
        self.nontrivial.add(h)

    def nontriv_count(self, n=1):
        """distinct-by-construction non-trivial cases (exhaustive enumerations: each visited once)"""
        self.nontrivial_n = getattr(self, "nontrivial_n", 0) + n

    def sample(self, obj, limit=3):
        if len(self.samples) < limit:
            self.samples.append(obj)

    def note(self, name, obj, limit=20):
        lst = self.extra.setdefault(name, [])
        if len(lst) < limit:
            lst.append(obj)

    # -- verdicts ------------------------------------------------------------------------------
    def violation(self, key, what, witness=None):
        assert key.startswith(self.pid + ":"), key
        e = self.violations.setdefault(key, {"count": 0, "witnesses": []})
        e["count"] += 1
        self._case_viol += 1
        if len(e["witnesses"]) < 2:
            e["witnesses"].append({"case": self.case, "what": what, "witness": _jsonable(witness)})

    def skip(self, reason):
        self.skipped[reason] = self.skipped.get(reason, 0) + 1

    def inconc(self, reason):
        self.inconclusive[reason] = self.inconclusive.get(reason, 0) + 1


def _jsonable(o, depth=0):
    try:
        import numpy as np
    except Exception:  # pragma: no cover
        np = None
    if depth > 6:
        return str(o)[:200]
    if o is None or isinstance(o, (bool, int, float, str)):
        return o
    if np is not None and isinstance(o, np.ndarray):
        if o.size <= 64:
            if o.dtype.kind == "c":
                return {"dtype": str(o.dtype), "shape": list(o.shape), "real": o.real.tolist(), "imag": o.imag.tolist()}
            return {"dtype": str(o.dtype), "shape": list(o.shape), "data": o.tolist()}
        return {"dtype": str(o.dtype), "shape": list(o.shape), "head": o.ravel()[:16].tolist()}
    if np is not None and isinstance(o, np.generic):
        return o.item() if o.dtype.kind != "c" else str(o)
    if isinstance(o, dict):
        return {str(k): _jsonable(v, depth + 1) for k, v in o.items()}
    if isinstance(o, (list, tuple, set)):
        return [_jsonable(v, depth + 1) for v in list(o)[:50]]
    return str(o)[:300]


def classify_exception(exc, repo):
    """Did the code under test raise (library) or did the harness itself fail?

    library: the deepest traceback frame that is neither stdlib nor site-packages lies under
    <repo>/tensorly (i.e. the exception was born in, or below, library code called by the harness).
    """
    tb = exc.__traceback__
    frames = traceback.extract_tb(tb)
    deepest = None
    for fr in frames:
        fn = os.path.abspath(fr.filename)
        if "/site-packages/" in fn or "/lib/python3" in fn or fn.startswith("<"):
            continue
        deepest = fn
    if deepest and deepest.startswith(os.path.join(os.path.abspath(repo), "tensorly") + os.sep):
        return "library"
    return "harness"


def main(argv):
    pid, tier, seed, shard, nshards, out, plan_file, only_gen = (argv + [""] * 8)[:8]
    seed, shard, nshards = int(seed), int(shard), int(nshards)
    repo = os.environ.get("VERIF_REPO", "/repo")
    sys.path.insert(0, repo)
    faulthandler.enable()
    import importlib
    import numpy as np  # noqa
    import tensorly
    assert os.path.abspath(tensorly.__file__).startswith(os.path.abspath(repo) + os.sep), (
        "tensorly imported from %s, not from %s" % (tensorly.__file__, repo))
    prop = importlib.import_module("tlv.props." + pid.lower())
    if plan_file:
        with open(plan_file) as f:
            plan = json.load(f)
    else:
        plan = prop.plan(tier, seed)
        if only_gen:
            plan = [c for c in plan if c.get("gen") == only_gen]
    if not plan_file and not getattr(prop, "KEEP_ORDER", False):
        import random
        random.Random(1234567).shuffle(plan)  # same permutation in every worker: balances shards across generators
    mine = [c for i, c in enumerate(plan) if i % nshards == shard]
    ctx = Ctx(pid)
    case_timeout = getattr(prop, "CASE_TIMEOUT", {"quick": 60, "thorough": 120}).get(tier, 60)

    def on_alarm(signum, frame):
        raise CaseTimeout()

    signal.signal(signal.SIGALRM, on_alarm)
    if hasattr(prop, "setup_worker"):
        prop.setup_worker(ctx, tier, seed)
    done = 0
    last_flush = time.time()

    def flush():
        res = {
            "planned": len(mine), "done": done, "counters": ctx.counters, "status": ctx.status,
            "inconclusive": ctx.inconclusive, "skipped": ctx.skipped, "nontrivial": sorted(ctx.nontrivial), "nontrivial_n": getattr(ctx, "nontrivial_n", 0),
            "violations": ctx.violations, "samples": ctx.samples if shard == 0 else ctx.samples[:1],
            "harness_errors": ctx.harness_errors[:5], "extra": ctx.extra,
        }
        tmp = out + ".tmp"
        with open(tmp, "w") as f:
            json.dump(res, f, default=str)
        os.replace(tmp, out)

    for case in mine:
        ctx.case = case
        ctx._case_viol = 0
        before_inc = sum(ctx.inconclusive.values())
        signal.setitimer(signal.ITIMER_REAL, case_timeout)
        try:
            prop.run_case(case, ctx)
            signal.setitimer(signal.ITIMER_REAL, 0)
        except CaseTimeout:
            ctx.inconc("case watchdog %ss (%s)" % (case_timeout, case.get("gen")))
        except BaseException as e:  # noqa
            signal.setitimer(signal.ITIMER_REAL, 0)
            if isinstance(e, KeyboardInterrupt):
                raise
            if classify_exception(e, repo) == "library":
                fr = traceback.extract_tb(e.__traceback__)[-1]
                ctx.violation("%s:%s:raises:%s" % (pid, case.get("gen", "case"), type(e).__name__),
                              "unexpected %s from library code: %s" % (type(e).__name__, str(e)[:300]),
                              {"traceback": traceback.format_exc()[-1500:]})
            else:
                ctx.harness_errors.append(json.dumps(case, default=str)[:300] + "\n" + traceback.format_exc()[-3000:])
        finally:
            signal.setitimer(signal.ITIMER_REAL, 0)
        done += 1
        st = "violation" if ctx._case_viol else ("inconclusive" if sum(ctx.inconclusive.values()) > before_inc else "ok")
        ctx.status[st] = ctx.status.get(st, 0) + 1
        if time.time() - last_flush > 3:
            flush()
            last_flush = time.time()
    try:
        from .core import decomp as _decomp
        for route, nr in _decomp.ROUTES.items():
            if nr:
                ctx.count("decomposition_entry_point/%s" % route, nr)
    except Exception:  # noqa
        pass
    if not ctx.samples:
        ctx.samples = [{"case": c} for c in mine[:2]]
    if hasattr(prop, "teardown_worker"):
        try:
            prop.teardown_worker(ctx, tier, seed)
        except BaseException:  # noqa
            ctx.harness_errors.append("teardown:\n" + traceback.format_exc()[-3000:])
    flush()
    return 0


if __name__ == "__main__":
    sys.exit(main(sys.argv[1:]))
