"""C11 — constrained CP returns factors satisfying every requested hard constraint; double constraints are rejected.

Feasibility predicates (as the operators document their sets) are evaluated on the factors of the CPTensor returned by
the real constrained_parafac / ConstrainedCP for scalar / list / dict specifications over every subset of modes, mixed
kinds on disjoint modes, signed and non-negative data, and tight outer/inner iteration budgets.
"""
import numpy as np

from ..core import gen, ref, tol, decomp

ID = "C11"
RULE = ("seeded (data, rank, init, constraint kinds per mode, specification form, budgets) configurations; non-trivial = at least "
        "one updated constrained mode; distinct = distinct configuration descriptors")
ASSUMPTIONS = ["sets as documented by the operators: hard/normalised sparsity and max-normalisation act on the whole factor matrix, "
               "the others column-wise", "monotonicity: each column monotone in one direction (operator default is non-decreasing, the "
               "decomposition's docstring says decreasing: either is accepted)",
               "modes never updated (fixed modes; n_iter_max=0 with a user init, documented as not projected) are exempt"]
KINDS = ["non_negative", "simplex", "monotonicity", "unimodality", "hard_sparsity", "normalized_sparsity", "normalize", "soft_sparsity"]
GENS = ["single", "mixed", "double", "class_api"]
CASE_TIMEOUT = {"quick": 120, "thorough": 120}


def plan(tier, seed):
    n = 8000 if tier == "quick" else 96000
    return [{"gen": GENS[i % len(GENS)], "idx": i, "seed": seed} for i in range(n)]


def floors(tier):
    f = {"feasible-checked/%s" % k: 60 for k in KINDS}
    f.update({"form/scalar": 100, "form/list": 100, "form/dict": 100, "double_rejected": 100})
    return f


def bounds(tier):
    return {"orders": "3-4", "mode_sizes": "2-6", "ranks": "1-3", "outer_budgets": [0, 1, 3, 10], "inner_budgets": [1, 3, 10]}


def param_for(rs, kind, shape, R):
    if kind in ("non_negative", "monotonicity", "unimodality", "normalize"):
        return True
    if kind == "simplex":
        return float(gen.choice(rs, [1.0, 2.0, 0.5]))
    if kind == "soft_sparsity":
        return float(gen.choice(rs, [1.0, 3.0, 0.2]))
    return int(rs.randint(1, 6))  # hard / normalised sparsity


def feasible(kind, param, F, eps, scale=1.0):
    F = ref.hp(F)
    if not np.all(np.isfinite(F)):
        return False, "non-finite entries"
    n = F.size
    if kind == "non_negative":
        return bool(np.all(F >= 0)), "negative entry %r" % float(F.min())
    if kind == "simplex":
        if np.any(F < 0):
            return False, "negative entry %r" % float(F.min())
        s = F.sum(axis=0)
        # the projection subtracts a threshold from entries of the magnitude of the ADMM iterate (data scale): slack scales with it
        return bool(np.all(np.abs(s - param) <= 1e5 * eps * (abs(param) + scale) * F.shape[0])), "column sums %r != %r" % (s, param)
    if kind == "monotonicity":
        d = np.diff(F, axis=0)
        ok = all(np.all(d[:, c] >= 0) or np.all(d[:, c] <= 0) for c in range(F.shape[1]))
        return bool(ok), "a column is not monotone"
    if kind == "unimodality":
        for c in range(F.shape[1]):
            col = F[:, c]
            p = int(np.argmax(col))
            if not (np.all(np.diff(col[:p + 1]) >= 0) and np.all(np.diff(col[p:]) <= 0)):
                return False, "column %d not unimodal: %r" % (c, col)
        return True, ""
    if kind == "hard_sparsity":
        return int(np.count_nonzero(F)) <= param, "%d non-zeros > %d" % (int(np.count_nonzero(F)), param)
    if kind == "normalized_sparsity":
        if int(np.count_nonzero(F)) > param:
            return False, "%d non-zeros > %d" % (int(np.count_nonzero(F)), param)
        return abs(np.linalg.norm(F) - 1) <= 100 * eps * n, "norm %r != 1" % float(np.linalg.norm(F))
    if kind == "normalize":
        return abs(np.max(np.abs(F)) - 1) <= 10 * eps, "max|x| = %r != 1" % float(np.max(np.abs(F)))
    if kind == "soft_sparsity":
        s = np.sum(np.abs(F), axis=0)
        return bool(np.all(s <= param + 1e5 * eps * (abs(param) + scale) * F.shape[0])), "column l1 norms %r exceed %r" % (s, param)
    raise ValueError(kind)


def run_case(case, ctx):
    try:
        _run_case(case, ctx)
    except np.linalg.LinAlgError:
        ctx.skip("singular ADMM system (LinAlgError)")


def _run_case(case, ctx):
    import tensorly as tl
    from tensorly.decomposition import constrained_parafac, ConstrainedCP

    g = case["gen"]
    rs = gen.rng(case["seed"], case["idx"], g)
    dt = "float64"
    eps = tol.eps_of(dt)
    cls = gen.choice(rs, ["generic", "nonneg", "nonneg-lowrank", "integer", "lowrank"])
    data = decomp.make_data(rs, "constrained_parafac", dt, cls=cls, order=int(rs.randint(3, 5)))
    X = data["X"]
    order = X.ndim
    R = int(rs.randint(1, 4))
    n_out = int(gen.choice(rs, [0, 1, 3, 10]))
    n_in = int(gen.choice(rs, [1, 3, 10]))
    init_kind = gen.choice(rs, ["svd", "random", "user"])
    seed = int(rs.randint(0, 2 ** 31 - 1))
    if init_kind == "user":
        init = (None, [rs.standard_normal((s, R)) for s in X.shape])
    else:
        init = init_kind

    if g == "double":
        k1, k2 = rs.choice(len(KINDS), size=2, replace=False)
        k1, k2 = KINDS[k1], KINDS[k2]
        m = int(rs.randint(order))
        form = gen.choice(rs, ["dict-dict", "scalar-dict", "scalar-scalar", "list-dict", "dict-dict-key-from-the-end", "list-dict-key-from-the-end"])
        p1, p2 = param_for(rs, k1, X.shape, R), param_for(rs, k2, X.shape, R)
        if form == "dict-dict":
            kw = {k1: {m: p1}, k2: {m: p2, (m + 1) % order: p2}}
        elif form == "dict-dict-key-from-the-end":
            # the same mode named once from the start and once from the end (both spellings are accepted as keys)
            kw = {k1: {m: p1}, k2: {m - order: p2}}
        elif form == "list-dict-key-from-the-end":
            lst = [None] * order
            lst[m] = p1
            kw = {k1: lst, k2: {m - order: p2}}
        elif form == "scalar-dict":
            kw = {k1: p1, k2: {m: p2}}
        elif form == "scalar-scalar":
            kw = {k1: p1, k2: p2}
        else:
            lst = [None] * order
            lst[m] = p1
            kw = {k1: lst, k2: {m: p2}}
        # the request is rejected whatever the budget, the start and the entry point (no sweep and a user start included)
        n_dbl = int(gen.choice(rs, [0, 0, 1, 1, 3]))
        via_class = bool(rs.rand() < 0.3)
        ctx.count("double/%s-start-budget-%s" % ("user" if init_kind == "user" else "built-in", "0" if n_dbl == 0 else "N"))
        desc = {"gen": g, "kinds": [k1, k2], "mode": m, "form": form, "n_iter_max": n_dbl, "init": init_kind, "class": via_class}
        try:
            if via_class:
                ConstrainedCP(R, n_iter_max=n_dbl, init=init, random_state=seed, **kw).fit_transform(X)
            else:
                constrained_parafac(X, R, n_iter_max=n_dbl, init=init, random_state=seed, **kw)
        except ValueError:
            ctx.count("double_rejected")
        except Exception as e:  # noqa
            ctx.violation("C11:double-constraint:wrong-exception:%s" % form, "two constraints on mode %d raised %s instead of ValueError: %s" % (m, type(e).__name__, str(e)[:150]), desc)
        else:
            ctx.violation("C11:double-constraint:accepted:%s" % form, "two constraints (%s, %s) on mode %d were accepted" % (k1, k2, m), desc)
        ctx.nontriv(desc)
        return

    # constraints per mode
    per_mode = {}
    if g in ("single", "class_api"):
        kind = KINDS[(case["idx"] // len(GENS)) % len(KINDS)]
        form = gen.choice(rs, ["scalar", "list", "list-holes", "dict"])
        p = param_for(rs, kind, X.shape, R)
        if form == "scalar":
            # one value for all modes, as a caller's arithmetic produces it: a NumPy boolean from a reduction, a NumPy number
            spell = gen.choice(rs, ["python", "python", "numpy-scalar", "zero-d-array"])
            p_arg = p
            if spell == "numpy-scalar":
                p_arg = np.bool_(p) if isinstance(p, bool) else (np.int64(p) if isinstance(p, int) else np.float64(p))
            elif spell == "zero-d-array":
                p_arg = np.asarray(p)
            if spell != "python":
                ctx.count("form/scalar-" + spell)
                form = "scalar-" + spell
            kw = {kind: p_arg}
            per_mode = {m: (kind, p) for m in range(order)}
        elif form == "list":
            ps = [param_for(rs, kind, X.shape, R) for _ in range(order)]
            kw = {kind: ps}
            per_mode = {m: (kind, ps[m]) for m in range(order)}
        elif form == "list-holes":
            k = int(rs.randint(1, order))
            sel = sorted(rs.choice(order, size=k, replace=False).tolist())
            hole = gen.choice(rs, [None, None, False, 0])    # every spelling of "this mode is not concerned"
            ps = [p if m in sel else hole for m in range(order)]
            kw = {kind: ps}
            per_mode = {m: (kind, p) for m in sel}
        else:
            k = int(rs.randint(1, order + 1))
            sel = sorted(rs.choice(order, size=k, replace=False).tolist())
            # a parameter of its own per mode, keys written in any order (a dictionary built up as the modes were decided on)
            ps = {m: (p if rs.rand() < 0.3 else param_for(rs, kind, X.shape, R)) for m in sel}
            keys = rs.permutation(sel).tolist()
            kw = {kind: {m: ps[m] for m in keys}}
            per_mode = {m: (kind, ps[m]) for m in sel}
            if keys != sorted(keys):
                ctx.count("form/dict-keys-not-ascending")
    else:  # mixed kinds on disjoint modes
        form = gen.choice(rs, ["dict", "dict", "list-holes"])
        nk = int(rs.randint(2, min(order, 3) + 1))
        kinds = [KINDS[i] for i in rs.choice(len(KINDS), size=nk, replace=False)]
        modes = rs.permutation(order)[:nk].tolist()
        kw = {}
        for kd, m in zip(kinds, modes):
            p = param_for(rs, kd, X.shape, R)
            per_mode[m] = (kd, p)
            if form == "dict":
                kw[kd] = {m: p}
            else:
                lst = [gen.choice(rs, [None, None, False, 0])] * order
                lst[m] = p
                kw[kd] = lst
    fixed = []
    if rs.rand() < 0.25 and init_kind == "user":
        fixed = sorted(rs.choice(order - 1, size=int(rs.randint(1, order - 1)) if order > 2 else 1, replace=False).tolist())
    ctx.count("form/%s" % ("list" if form.startswith("list") else form))
    desc = {"gen": g, "data": cls, "shape": list(X.shape), "rank": R, "init": init_kind, "form": form, "constraints": {str(m): list(v) for m, v in per_mode.items()},
            "n_iter_max": n_out, "n_iter_max_inner": n_in, "fixed_modes": fixed}
    ctx.sample({"case": desc}, 6)
    try:
        if g == "class_api":
            if rs.rand() < 0.4:
                # the constraints are put on the estimator after it was built (one estimator re-configured between fits): what it
                # carries when it is fitted is the request
                est = ConstrainedCP(R, n_iter_max=n_out, n_iter_max_inner=n_in, init=init, random_state=seed, fixed_modes=list(fixed) or None)
                for k_, v_ in kw.items():
                    setattr(est, k_, v_)
                ctx.count("class_constraints_assigned_after_construction")
                form = form + "+assigned-later"
            else:
                est = ConstrainedCP(R, n_iter_max=n_out, n_iter_max_inner=n_in, init=init, random_state=seed, fixed_modes=list(fixed) or None, **kw)
            out = est.fit_transform(X)
        else:
            out = constrained_parafac(X, R, n_iter_max=n_out, n_iter_max_inner=n_in, init=init, random_state=seed, fixed_modes=list(fixed) or None, **kw)
    except np.linalg.LinAlgError:
        raise
    except Exception as e:  # noqa
        ctx.violation("C11:constrained_parafac:raises-%s:%s" % (type(e).__name__, form), "specification form %r raised %s: %s" % (form, type(e).__name__, str(e)[:200]), desc)
        return
    w, fs = out
    updated_any = False
    for m, (kd, p) in per_mode.items():
        never_updated = (m in fixed) or (n_out == 0 and init_kind == "user")
        if never_updated:
            ctx.count("exempt_never_updated")
            continue
        updated_any = True
        ctx.count("feasible-checked/%s" % kd)
        ok, why = feasible(kd, p, np.asarray(fs[m]), eps, scale=1.0 + float(np.linalg.norm(X)))
        if not ok:
            zero = not np.any(np.nan_to_num(np.asarray(fs[m]))) or not np.all(np.isfinite(np.asarray(fs[m])))
            sub = "degenerate-zero-or-nan" if zero else form
            ctx.violation("C11:constrained_parafac:infeasible-%s:%s" % (kd, sub), "mode %d constrained by %s=%r but the returned factor is infeasible: %s (outer %d, inner %d, init %s)" % (
                m, kd, p, why, n_out, n_in, init_kind), {"desc": desc, "factor": np.asarray(fs[m])})
            return
    if updated_any:
        ctx.nontriv(desc)
