"""C19 — tensor regressors predict with exactly the weights they expose; CP-PLSR consistency and invariances."""
import numpy as np

from ..core import gen, ref, tol

ID = "C19"
RULE = ("seeded regression problems (6-30 samples, input order 2-4 incl. the sample mode, scalar and tensor-valued targets for "
        "the CP regressor, ranks/components 1-3, reg_W in {0.01,1,10}, float32/64); non-trivial = rank or component count > 1 or "
        "tensor-valued target; distinct = distinct (model, shapes, rank, reg, seed, dtype)")
ASSUMPTIONS = ["numpy.einsum contraction is the reference for predictions", "CP-PLSR invariances are checked on generic Gaussian data with "
               "n_components <= min(features) and tolerance 1e-6 relative (power iterations stop at tol 1e-9)"]
GENS = ["cp_regressor", "tucker_regressor", "cp_plsr"]
CASE_TIMEOUT = {"quick": 120, "thorough": 120}


def plan(tier, seed):
    n = 2400 if tier == "quick" else 36000
    return [{"gen": GENS[i % len(GENS)], "idx": i, "seed": seed} for i in range(n)]


def floors(tier):
    f = {"checked/%s" % g: 100 for g in GENS}
    f.update({"clause/predict-equals-contraction": 200, "clause/weight-tensor-equals-factors": 200, "clause/vec": 200,
              "clause/plsr-transform": 100, "clause/plsr-transform-with-Y": 100, "refit/aborted": 50, "clause/predict-equals-contraction-after-aborted-refit": 50, "clause/plsr-unit-loadings": 100, "clause/plsr-shift-invariance": 100, "clause/plsr-permutation": 100})
    return f


def bounds(tier):
    return {"samples": "6-30", "feature_modes": "1-3 of size 2-5", "ranks": "1-3"}


def run_case(case, ctx):
    import tensorly as tl
    from tensorly.regression.cp_regression import CPRegressor
    from tensorly.regression.tucker_regression import TuckerRegressor
    from tensorly.regression.cp_plsr import CP_PLSR

    g = case["gen"]
    rs = gen.rng(case["seed"], case["idx"], g)
    dt = "float32" if rs.rand() < 0.25 else "float64"
    eps = tol.eps_of(dt)
    ctx.count("checked/%s" % g)
    n = int(rs.randint(6, 31))
    fshape = gen.shape(rs, int(rs.randint(1, 4)), 2, 5)
    X = gen.arr(rs, [n] + fshape, dt, "gauss")
    Xnew = gen.arr(rs, [int(rs.randint(1, 6))] + fshape, dt, "gauss")
    seed = int(rs.randint(0, 2 ** 31 - 1))
    L = ref.L
    fs = L[1:1 + len(fshape)]

    def viol(clause, cls, what, wit=None):
        ctx.violation("C19:%s:%s:%s" % (g, clause, cls), what, wit)

    if g in ("cp_regressor", "tucker_regressor"):
        reg = float(gen.choice(rs, [0.01, 1.0, 10.0]))
        iters = int(rs.randint(1, 12))
        if g == "cp_regressor":
            oshape = gen.choice(rs, [[], [], [int(rs.randint(1, 4))], [int(rs.randint(1, 3)), int(rs.randint(1, 3))]])
            rank = int(rs.randint(1, 4))
            y = gen.arr(rs, [n] + oshape, dt, "gauss")
            est = CPRegressor(weight_rank=rank, tol=1e-9, reg_W=reg, n_iter_max=iters, random_state=seed, verbose=0)
            cls = "scalar-target" if not oshape else "tensor-target"
        else:
            oshape = []
            rank = [int(rs.randint(1, min(s, 3) + 1)) for s in fshape]
            y = gen.arr(rs, [n], dt, "gauss")
            est = TuckerRegressor(weight_ranks=rank, tol=1e-9, reg_W=reg, n_iter_max=iters, random_state=seed, verbose=0)
            cls = "scalar-target"
        desc = {"model": g, "n": n, "features": fshape, "target": oshape, "rank": rank, "reg_W": reg, "iters": iters, "dtype": dt}
        ctx.sample({"case": desc}, 4)
        if (np.max(rank) if isinstance(rank, list) else rank) > 1 or oshape:
            ctx.nontriv(dict(desc, seed=seed))
        scls = "vector-samples" if len(fshape) == 1 else "tensor-samples"
        try:
            est.fit(X, y)
        except Exception as e:  # noqa
            viol("fit-raises-%s" % type(e).__name__, scls, "fit raised %s: %s" % (type(e).__name__, str(e)[:200]), desc)
            return
        os_ = L[10:10 + len(oshape)]

        def consistent(stage):
            """the three equalities of the statement, on whatever the estimator exposes now; returns False after reporting"""
            sfx = "" if stage == "fit" else "-" + stage
            Wt = np.asarray(est.weight_tensor_)
            if Wt.shape != tuple(fshape + oshape):
                viol("weight-shape" + sfx, cls, "weight_tensor_ has shape %s, expected %s" % (Wt.shape, fshape + oshape), desc)
                return False
            # weight tensor equals the reconstruction of the exposed factors
            ctx.count("clause/weight-tensor-equals-factors" + sfx)
            if g == "cp_regressor":
                w_, Fs = est.cp_weight_
                if [np.shape(f) for f in Fs] != [(s_, rank) for s_ in fshape + oshape]:
                    viol("weight-tensor-equals-factors" + sfx, cls, "exposed CP factors have shapes %s for a weight tensor of shape %s" % ([np.shape(f) for f in Fs], Wt.shape), desc)
                    return False
                dense, absb, nt = ref.cp_dense(w_, [np.asarray(f) for f in Fs])
            else:
                G_, Fs = est.tucker_weight_
                dense, absb, nt = ref.tucker_dense(np.asarray(G_), [np.asarray(f) for f in Fs])
            ok, worst = tol.formula_close(Wt, dense, absb, eps, nt)
            if not ok:
                viol("weight-tensor-equals-factors" + sfx, cls, "weight_tensor_ differs from the reconstruction of the exposed factors (err/bound %.3g)" % worst, desc)
                return False
            ctx.count("clause/vec" + sfx)
            ok, worst = tol.formula_close(np.asarray(est.vec_W_), dense.ravel(), absb.ravel(), eps, nt)
            if not ok:
                viol("vec" + sfx, cls, "vec_W_ differs from the vectorised weight tensor (err/bound %.3g)" % worst, desc)
                return False
            # predictions equal the contraction of each sample with the exposed weight tensor
            for nm, Xq in (("train", X), ("unseen", Xnew)):
                ctx.count("clause/predict-equals-contraction" + sfx)
                pred = np.asarray(est.predict(Xq))
                want, wabs = ref.es("a%s,%s%s->a%s" % (fs, fs, os_, os_), Xq, Wt)
                ok, worst = tol.formula_close(pred, want, wabs, eps, int(np.prod(fshape)))
                if not ok:
                    viol("predict-equals-contraction" + sfx, cls, "predict(%s X) differs from <X_i, weight_tensor_> (err/bound %.3g; got shape %s want %s)" % (nm, worst, pred.shape, want.shape),
                         {"desc": desc, "got": pred, "want": want})
                    return False
            return True

        if not consistent("fit"):
            return
        # samples stored with an integer dtype (counts, pixel values) are contracted with the same float weights
        ctx.count("clause/predict-integer-samples")
        Xi = rs.randint(-3, 4, size=[int(rs.randint(1, 6))] + fshape).astype(gen.choice(rs, ["int64", "int32", "uint8"]))
        Xi = np.abs(Xi) if Xi.dtype == np.uint8 else Xi
        Wt_ = np.asarray(est.weight_tensor_)
        pred = np.asarray(est.predict(Xi))
        want, wabs = ref.es("a%s,%s%s->a%s" % (fs, fs, os_, os_), Xi.astype(np.float64), Wt_)
        ok, worst = tol.formula_close(pred, want, wabs, eps, int(np.prod(fshape)))
        if not ok:
            viol("predict-equals-contraction", cls + "+integer-samples", "predict(X) for X of dtype %s differs from <X_i, weight_tensor_> (err/bound %.3g)" % (Xi.dtype, worst),
                 {"desc": desc, "got": pred, "want": want})
            return
        if (case["idx"] // 3) % 2 == 0:
            # an estimator that was fitted and whose re-fit is aborted part-way (a failing linear solve, an interrupt) is still "after
            # fitting": whatever it exposes must still agree with itself
            inst = tl.backend.BackendManager.current_backend()
            # the failpoint sits in the linear solve / norm of the sweeps, never inside the final block that publishes the fitted
            # attributes one after the other (no statement promises atomicity against a fault in the middle of that block)
            name = gen.choice(rs, ["solve", "solve", "norm"])
            orig = getattr(inst, name)
            nth = int(rs.randint(1, 9))
            cnt = [0]

            class Injected(Exception if rs.rand() < 0.7 else BaseException):   # an interrupt is not an Exception
                pass

            def failing(*a, **k):
                cnt[0] += 1
                if cnt[0] == nth:
                    raise Injected("%s failpoint, call %d" % (name, nth))
                return orig(*a, **k)
            X2 = gen.arr(rs, [n] + fshape, dt, "gauss")
            y2 = gen.arr(rs, [n] + oshape, dt, "gauss")
            setattr(inst, name, failing)
            fired = False
            try:
                est.fit(X2, y2)
            except Injected:
                fired = True
            finally:
                try:
                    delattr(inst, name)
                except AttributeError:
                    setattr(inst, name, orig)
            ctx.count("refit/aborted" if fired else "refit/completed")
            if not consistent("after-aborted-refit" if fired else "after-refit"):
                return
        return

    # ---- CP-PLSR ---------------------------------------------------------------------------------------------
    if rs.rand() < 0.06 and dt == "float64":
        # one long non-sample mode (spectra, time series): "large problem" shortcuts start here
        fshape = [int(rs.randint(501, 700))] + [int(rs.randint(2, 13))]      # the other mode: shorter or longer than a sketch is wide
        if rs.rand() < 0.5:
            fshape = fshape[::-1]
        n = int(rs.randint(6, 14))
        X = gen.arr(rs, [n] + fshape, dt, "gauss")
        Xnew = gen.arr(rs, [2] + fshape, dt, "gauss")
        ctx.count("plsr_long_mode")
    ny = int(rs.randint(1, 4))
    vecY = bool(ny == 1 and rs.rand() < 0.5)
    # targets correlated with X so that the latent components are well separated
    Wtrue = rs.standard_normal((int(np.prod(fshape)), ny))
    Y = (ref.hp(X).reshape(n, -1) @ Wtrue + 0.5 * rs.standard_normal((n, ny))).astype(dt)
    if vecY:
        Y = Y[:, 0]
    ncomp = int(rs.randint(1, min(3, min(fshape), n - 2) + 1))
    desc = {"model": g, "n": n, "features": fshape, "ny": ny, "vector_Y": vecY, "n_components": ncomp, "dtype": dt}
    ctx.sample({"case": desc}, 3)
    if ncomp > 1:
        ctx.nontriv(dict(desc, seed=seed))
    rtol = 1e-6 if dt == "float64" else 2e-2

    # the same regression problem with X and Y recorded in other units: loadings are unit vectors whatever the units
    if dt == "float64" and rs.rand() < 0.15:
        ux, uy = float(gen.choice(rs, [1e-8, 1e4])), float(gen.choice(rs, [1e-8, 1e4]))
        X, Xnew, Y = X * ux, Xnew * ux, Y * uy
        desc["units"] = [ux, uy]
        ctx.count("plsr_other_units")

    # the stopping tolerance: tight, or the estimator's default (the same for every fit of the case)
    tol_kw = {"tol": 1e-12 if dt == "float64" else 1e-6}
    pick_tol = rs.rand()
    if dt == "float64" and pick_tol < 0.4:
        tol_kw = {}
        desc["tol"] = "default"
    elif dt == "float64" and pick_tol < 0.55:
        # a loosened tolerance: every component stops early on the tolerance test, the fitted attributes still belong together
        tol_kw = {"tol": float(gen.choice(rs, [1e-2, 1e-3]))}
        desc["tol"] = tol_kw["tol"]
        ctx.count("plsr_loose_tolerance")
    mixed = False
    if dt == "float32" and rs.rand() < 0.4:
        # single-precision features with double-precision responses (labels read from another file)
        Y = ref.hp(Y)
        mixed = True
        desc["Y_dtype"] = "float64"
        ctx.count("plsr_mixed_precision")

    def fit(Xa, Ya):
        m = CP_PLSR(n_components=ncomp, n_iter_max=300, random_state=seed, **tol_kw)
        m.fit(Xa.copy(), Ya.copy())
        return m

    m = fit(X, Y)
    T0 = ref.hp(m.X_factors[0])
    if not all(np.all(np.isfinite(np.asarray(f))) for f in list(m.X_factors) + list(m.Y_factors)):
        viol("finite", "any", "non-finite fitted factors", desc)
        return
    scale_T = np.max(np.abs(T0)) + 1e-300
    # transform(train) == fitted scores
    ctx.count("clause/plsr-transform")
    Tt = ref.hp(m.transform(X.copy()))
    if Tt.shape != T0.shape or np.max(np.abs(Tt - T0)) > 100 * rtol * scale_T:
        viol("transform-equals-scores", "any", "transform(X_train) differs from X_factors[0] by %.3g (scale %.3g)" % (np.max(np.abs(Tt - T0)), scale_T), desc)
    # the same with the training targets, twice, from the caller's own arrays: same scores both times, inputs untouched
    ctx.count("clause/plsr-transform-with-Y")
    Xc, Yc = X.copy(), Y.copy()
    outs = [m.transform(Xc, Yc) for _ in range(2)]
    if not (np.array_equal(Xc, X) and np.array_equal(Yc, Y)):
        viol("transform-modifies-input", "vector-Y" if vecY else "matrix-Y", "transform(X, Y) changed the caller's %s" % ("X" if not np.array_equal(Xc, X) else "Y"), desc)
        return
    U0 = ref.hp(m.Y_factors[0])
    scale_U = np.max(np.abs(U0)) + 1e-300
    for k, (tx, ty) in enumerate(outs):
        tx, ty = ref.hp(tx), ref.hp(ty)
        if tx.shape != T0.shape or np.max(np.abs(tx - T0)) > 100 * rtol * scale_T:
            viol("transform-equals-scores", "with-Y-call-%d" % (k + 1), "X scores of transform(X_train, Y_train) (call %d) differ from X_factors[0] by %.3g (scale %.3g)" % (k + 1, np.max(np.abs(tx - T0)), scale_T), desc)
            return
        if ty.shape != U0.shape or np.max(np.abs(ty - U0)) > 100 * rtol * scale_U:
            viol("transform-equals-scores", "Y-scores-call-%d" % (k + 1), "Y scores of transform(X_train, Y_train) (call %d) differ from Y_factors[0] by %.3g (scale %.3g)" % (k + 1, np.max(np.abs(ty - U0)), scale_U), desc)
            return
    # fit_transform hands out the scores; the caller may do with them what it likes (standardise them in place for a plot): the model's own
    # scores still are what transform(X_train) returns
    ctx.count("clause/plsr-fit_transform-result-edited")
    mft = CP_PLSR(n_components=ncomp, tol=1e-12 if dt == "float64" else 1e-6, n_iter_max=300, random_state=seed)
    res = mft.fit_transform(X.copy(), Y.copy())
    for arr_ in (res if isinstance(res, (tuple, list)) else [res]):
        arr_ = np.asarray(arr_)
        if arr_.flags.writeable:
            arr_ *= 0.0
            arr_ += 7.0
    Tm, Tt2 = ref.hp(mft.X_factors[0]), ref.hp(mft.transform(X.copy()))
    if Tm.shape != Tt2.shape or np.max(np.abs(Tm - Tt2)) > 100 * rtol * (np.max(np.abs(Tt2)) + 1e-300):
        viol("transform-equals-scores", "after-editing-fit_transform-result", "after the caller edited the arrays returned by fit_transform in place, X_factors[0] differs from transform(X_train) by %.3g" % (
            np.max(np.abs(Tm - Tt2)) if Tm.shape == Tt2.shape else float("nan")), desc)
        return
    # unit-norm loadings
    ctx.count("clause/plsr-unit-loadings")
    for nm, f in [("X mode %d" % k, m.X_factors[k]) for k in range(1, len(m.X_factors))] + [("Y", m.Y_factors[1])]:
        nr = np.linalg.norm(ref.hp(f), axis=0)
        if np.any(np.abs(nr - 1) > 200 * eps):
            viol("unit-loadings", "any", "%s loadings have norms %r" % (nm, nr), desc)
            break
    P0 = ref.hp(m.predict(X.copy()))
    # constant shifts
    ctx.count("clause/plsr-shift-invariance")
    # ... of ordinary size, or large compared with the spread of the data (temperatures in mK, dates as day counts)
    big_x = float(gen.choice(rs, [3.0, 3.0, 1e3])) if dt == "float64" else 3.0
    big_y = float(gen.choice(rs, [3.0, 3.0, 1e4, 1e6])) if (dt == "float64" or mixed) else float(gen.choice(rs, [3.0, 30.0]))
    desc["shift_sizes"] = [big_x, big_y]
    ctx.count("plsr_shift_size/%g" % big_y)
    cX = (rs.standard_normal(fshape) * big_x * float(np.max(np.abs(X)) / 3 + 1e-300 if "units" in desc else 1.0)).astype(dt)
    cY = (rs.standard_normal(np.shape(Y)[1:]) * big_y * float(np.max(np.abs(Y)) / 3 + 1e-300 if "units" in desc else 1.0)).astype(Y.dtype)
    m2 = fit((X + cX).astype(dt), (Y + cY).astype(Y.dtype))
    P2 = ref.hp(m2.predict((X + cX).astype(dt))) - ref.hp(cY)
    sc_p = np.max(np.abs(P0)) + 1e-300
    load_dev = max(np.max(np.abs(np.abs(ref.hp(a)) - np.abs(ref.hp(b)))) for a, b in zip(list(m.X_factors[1:]) + [m.Y_factors[1]], list(m2.X_factors[1:]) + [m2.Y_factors[1]]))
    amp = 50 if dt == "float64" else 5
    ctx.note("plsr_shift_loading_deviation_%s" % dt, float(load_dev), limit=1)
    if load_dev > (amp * 100 * rtol if dt == "float64" else 0.01):
        viol("shift-invariance", "loadings", "loadings change by %.3g when a constant tensor is added to X and a constant to Y" % load_dev, desc)
    elif np.max(np.abs(P2.reshape(P0.shape) - P0)) > (amp * 100 * rtol if dt == "float64" else 0.02) * sc_p:
        viol("shift-invariance", "predictions", "predictions minus offset change by %.3g (scale %.3g) under constant shifts" % (np.max(np.abs(P2.reshape(P0.shape) - P0)), sc_p), desc)
    # sample permutation
    ctx.count("clause/plsr-permutation")
    perm = rs.permutation(n)
    m3 = fit(X[perm], Y[perm])
    T3 = ref.hp(m3.X_factors[0])
    P3 = ref.hp(m3.predict(X[perm].copy()))
    ptol = amp * 100 * rtol if dt == "float64" else 0.02
    if np.max(np.abs(np.abs(T3) - np.abs(T0[perm]))) > ptol * scale_T:
        viol("permutation-equivariance", "scores", "scores are not permuted consistently with the samples (dev %.3g)" % np.max(np.abs(np.abs(T3) - np.abs(T0[perm]))), desc)
    elif np.max(np.abs(P3 - P0[perm])) > ptol * sc_p:
        viol("permutation-equivariance", "predictions", "predictions are not permuted consistently with the samples (dev %.3g)" % np.max(np.abs(P3 - P0[perm])), desc)
