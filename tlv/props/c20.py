"""C20 — factor-similarity metrics are optimal and invariant to CP indeterminacies; error metrics equal their definitions."""
import itertools

import numpy as np

from ..core import gen, ref, tol

ID = "C20"
RULE = ("seeded factor sets (1-4 matrices, 2-8 rows, rank 1-6) as generic pairs, permuted+rescaled copies (all permutations for "
        "R<=4), and generic arrays for the error metrics; brute force over all R! matchings; non-trivial = rank > 1; distinct = "
        "distinct (generator, sizes, rank, options, content hash)")
ASSUMPTIONS = ["brute force over R! matchings on harness-computed cosines is the reference (R <= 6)",
               "correlation index 'stacked': equivalence means a common scalar per component across modes",
               "correlation index of equivalent sets: == 0 with tol=1e-10, <= 1e-12 with the default tol (rounding of ~1e-16 per term)"]
GENS = ["congruence_generic", "congruence_equivalent", "corrindex", "error_metrics", "leverage", "zero_columns", "permute"]


def plan(tier, seed):
    n = 21000 if tier == "quick" else 280000
    return [{"gen": GENS[i % len(GENS)], "idx": i, "seed": seed} for i in range(n)]


def floors(tier):
    f = {"checked/%s" % g: 300 for g in GENS}
    f["matchings_enumerated"] = 20000
    return f


def bounds(tier):
    return {"matrices": "1-4", "rows": "2-8", "rank": "1-6"}


def cos_matrix(A, B, absolute):
    A, B = ref.hp(A), ref.hp(B)
    C = (A / np.linalg.norm(A, axis=0)).conj().T @ (B / np.linalg.norm(B, axis=0))
    return np.abs(C) if absolute else C


def brute(Cs):
    """max over permutations p of mean_r prod_modes C[r, p[r]]"""
    P = np.ones_like(Cs[0])
    for C in Cs:
        P = P * C
    R = P.shape[0]
    best, n = -np.inf, 0
    for p in itertools.permutations(range(R)):
        n += 1
        v = np.mean(P[np.arange(R), list(p)])
        if v > best:
            best = v
    return float(best), P, n


_FLAG_TURN = [0]


def run_case(case, ctx):
    import tensorly as tl
    from tensorly.metrics import congruence_coefficient, correlation_index
    from tensorly.metrics import regression as mreg
    from tensorly.metrics.leverage_scores import leverage_score_dist
    from tensorly import cp_tensor as cpm

    g = case["gen"]
    rs = gen.rng(case["seed"], case["idx"], g)
    dt = "float32" if rs.rand() < 0.2 else "float64"
    eps = tol.eps_of(dt)
    ctx.count("checked/%s" % g)
    nm = int(rs.randint(1, 5))
    R = int(rs.randint(1, 7))
    rows = [int(rs.randint(2, 9)) for _ in range(nm)]

    def nonzero_cols(M):
        M = M.copy()
        for r in range(M.shape[1]):
            if not np.any(M[:, r]):
                M[0, r] = 1.0
        return M

    if g in ("congruence_generic", "congruence_equivalent"):
        absolute = bool(rs.rand() < 0.6) or g == "congruence_equivalent" and bool(rs.rand() < 0.7)
        F1 = [nonzero_cols(gen.arr(rs, [n, R], dt, gen.choice(rs, ["gauss", "int", "scaled"]))) for n in rows]
        cplx = bool(absolute and dt == "float64" and rs.rand() < 0.12)
        if cplx:
            # factor matrices of a complex CP model: the cosine of two complex columns is |x^H y| / (|x||y|), a rescaled copy may carry
            # any complex scale
            F1 = [f + 1j * rs.standard_normal(f.shape) for f in F1]
            ctx.count("congruence_complex")
        if g == "congruence_generic":
            F2 = [nonzero_cols(gen.arr(rs, [n, R], dt, "gauss")) for n in rows]
            if cplx:
                F2 = [f + 1j * rs.standard_normal(f.shape) for f in F2]
            if rs.rand() < 0.3:  # near-copies: hard instances with close competitors
                F2 = [(f + 0.3 * gen.arr(rs, f.shape, dt)).astype(f.dtype) for f in F1]
        else:
            perms = list(itertools.permutations(range(R)))
            p = np.array(perms[case["idx"] // len(GENS) % len(perms)] if R <= 4 else rs.permutation(R))
            F2 = []
            flips = np.ones(R)
            for f in F1:
                sc = rs.uniform(0.3, 3, R)
                if absolute:
                    sc = sc * rs.choice([-1, 1], R)
                if cplx:
                    sc = sc * np.exp(1j * rs.uniform(0, 2 * np.pi, R))
                F2.append((f[:, p] * sc).astype(f.dtype))
        # array objects may be shared: a mode given as the very same array in both lists (a known, fixed mode), or one array repeated in
        # several positions of a list (symmetric models [U, U, W]); only the values count
        sharing = "none"
        if g == "congruence_generic" and nm >= 2 and rs.rand() < 0.35:
            if rs.rand() < 0.5:
                k_ = int(rs.randint(nm))
                F2[k_] = F1[k_]
                sharing = "same-object-in-both-lists"
            else:
                i_, j_ = (int(v_) for v_ in rs.choice(nm, size=2, replace=False))
                if rows[i_] == rows[j_] or True:
                    F1[j_], F2[j_] = F1[i_], F2[i_]
                    sharing = "object-repeated-within-a-list"
        single = nm == 1 and bool(rs.rand() < 0.5)
        a1, a2 = (F1[0], F2[0]) if single else (list(F1), list(F2))
        desc = {"gen": g, "rows": rows, "rank": R, "absolute": absolute, "dtype": "complex128" if cplx else dt, "single": single, "sharing": sharing}
        ctx.count("sharing/" + sharing)
        # the flag as a caller's arithmetic produces it (a NumPy boolean from a comparison, 0/1)
        _FLAG_TURN[0] += 1
        absolute_arg = ([True, np.True_, 1, True, np.bool_(True)] if absolute else [False, np.False_, 0, False, np.bool_(False)])[_FLAG_TURN[0] % 5]
        score, perm = congruence_coefficient(a1, a2, absolute_value=absolute_arg)
        Cs = [cos_matrix(x, y, absolute) for x, y in zip(F1, F2)]
        best, Pm, n_enum = brute(Cs)
        ctx.count("matchings_enumerated", n_enum)
        stol = 200 * eps * nm
        perm = [int(i) for i in perm]
        if R > 1:
            ctx.nontriv(dict(desc, h=float(np.sum(F1[0]) + np.sum(F2[0]))))
        ctx.sample({"case": desc, "score": float(score), "permutation": perm}, 4)
        if sorted(perm) != list(range(R)):
            ctx.violation("C20:congruence:permutation-valid:any", "returned permutation %r is not a permutation of range(%d)" % (perm, R), desc)
            return
        attained = float(np.mean(Pm[np.arange(R), perm]))
        if abs(float(score) - best) > stol:
            ctx.violation("C20:congruence:optimal:%s" % ("abs" if absolute else "signed"), "returned score %.12g but the best matching has %.12g" % (score, best), {"desc": desc, "F1": F1, "F2": F2})
        if abs(attained - float(score)) > stol:
            ctx.violation("C20:congruence:permutation-attains:%s" % ("abs" if absolute else "signed"), "returned permutation %r scores %.12g, not the returned %.12g" % (perm, attained, score), {"desc": desc, "F1": F1, "F2": F2})
        if absolute and not (-stol <= float(score) <= 1 + stol):
            ctx.violation("C20:congruence:range:abs", "score %.12g outside [0,1]" % score, desc)
        if g == "congruence_equivalent":
            if abs(float(score) - 1) > stol:
                ctx.violation("C20:congruence:equivalent-score-one:any", "permuted+rescaled copy scores %.12g, not 1" % score, desc)
            # the permutation recovers the copy: F2[:, perm[i]] is collinear with F1[:, i]
            for x, y in zip(F1, F2):
                c = cos_matrix(x, y[:, perm], True)
                if np.any(np.abs(np.diag(c) - 1) > 200 * eps):
                    ctx.violation("C20:congruence:recovering-permutation:any", "returned permutation %r does not recover the planted one %r" % (perm, p.tolist()), desc)
                    break
    elif g == "corrindex":
        method = gen.choice(rs, ["stacked", "max_score", "min_score", "avg_score"])
        if rs.rand() < 0.2:
            # the index is defined through |x^H y|: complex factor matrices (e.g. of a complex CP model) are in scope
            dt = "complex128"
            eps = tol.eps_of("float64")
            ctx.count("corrindex_complex")
        F1 = [nonzero_cols(gen.arr(rs, [n, R], dt, gen.choice(rs, ["gauss", "scaled"]))) for n in rows]
        equiv = bool(rs.rand() < 0.5)
        desc = {"gen": g, "rows": rows, "rank": R, "method": method, "equivalent": equiv, "dtype": dt}
        if equiv:
            p = rs.permutation(R)
            def scal():
                sc_ = rs.uniform(0.3, 3, R) * rs.choice([-1, 1], R)
                return sc_ * np.exp(1j * rs.uniform(0, 2 * np.pi, R)) if dt == "complex128" else sc_
            common = scal()
            F2 = []
            for f in F1:
                sc = common if method == "stacked" else scal()
                F2.append((f[:, p] * sc).astype(dt))
            s_def = correlation_index(list(F1), list(F2), method=method)
            s_tol = correlation_index(list(F1), list(F2), method=method, tol=2000 * eps)
            if not (0 <= float(s_def) <= 1e4 * eps):
                ctx.violation("C20:correlation_index:zero-for-equivalent:%s" % method, "equivalent factor sets score %.3g (default tol)" % s_def, desc)
            if float(s_tol) != 0:
                ctx.violation("C20:correlation_index:zero-for-equivalent:%s" % method, "equivalent factor sets score %.3g with tol=%.1g, expected exactly 0" % (s_tol, 2000 * eps), desc)
        else:
            F2 = [nonzero_cols(gen.arr(rs, [n, R], dt, "gauss")) for n in rows]
            s = float(correlation_index(list(F1), list(F2), method=method))
            # independent definition
            def ci(x1, x2):
                c = np.abs(cos_matrix(x1, x2, True))
                return (np.sum(np.abs(c.max(1) - 1)) + np.sum(np.abs(c.max(0) - 1))) / (2 * c.shape[0])
            if method == "stacked":
                want = ci(np.concatenate([ref.hp(f) for f in F1], 0), np.concatenate([ref.hp(f) for f in F2], 0))
            else:
                vals = [ci(x, y) for x, y in zip(F1, F2)]
                want = {"max_score": max, "min_score": min, "avg_score": lambda v: float(np.mean(v))}[method](vals)
            if not (0 <= s <= 1 + 100 * eps):
                ctx.violation("C20:correlation_index:range:%s" % method, "score %.6g outside [0,1]" % s, desc)
            elif abs(s - want) > 1e3 * eps:
                ctx.violation("C20:correlation_index:definition:%s" % method, "score %.12g, definition gives %.12g" % (s, want), {"desc": desc, "F1": F1, "F2": F2})
            elif want > 1e-3 and s == 0:
                ctx.violation("C20:correlation_index:nonzero-for-different:%s" % method, "non-equivalent factor sets score exactly 0", desc)
        if R > 1:
            ctx.nontriv(dict(desc, h=float(np.sum(np.abs(F1[0])))))
        # one of the two sets (or both) already normalised: columns of unit length per matrix (cp_normalize output) or over the stacked
        # matrices; the index depends on the column directions only, so it equals the index of the un-normalised sets
        side = gen.choice(rs, ["first", "second", "second", "both"])
        how = gen.choice(rs, ["per-matrix", "stacked"])
        if method == "stacked":
            how = "stacked"     # the stacked columns' directions survive a scale common to all matrices only
        ctx.count("corrindex_prenormalised/%s-%s" % (side, how))

        def unit(Fs):
            if how == "per-matrix":
                return [(f / np.linalg.norm(ref.hp(f), axis=0)).astype(dt) for f in Fs]
            nst = np.linalg.norm(np.concatenate([ref.hp(f) for f in Fs], 0), axis=0)
            return [(f / nst).astype(dt) for f in Fs]
        G1 = unit(F1) if side in ("first", "both") else F1
        G2 = unit(F2) if side in ("second", "both") else F2
        s_raw = float(correlation_index(list(F1), list(F2), method=method))
        s_nrm = float(correlation_index(list(G1), list(G2), method=method))
        if abs(s_nrm - s_raw) > 1e4 * eps:
            ctx.violation("C20:correlation_index:scale-invariance:%s" % method, "index %.6g for the raw sets but %.6g when the %s set(s) have unit-length columns (%s)" % (s_raw, s_nrm, side, how),
                          dict(desc, prenormalised=[side, how]))
    elif g == "error_metrics":
        shp = gen.shape(rs, int(rs.randint(1, 4)), 2, 6)
        y, yp = gen.arr(rs, shp, dt, "gauss"), gen.arr(rs, shp, dt, "gauss")
        axis = gen.choice(rs, [None] + list(range(len(shp))))
        desc = {"gen": g, "shape": shp, "axis": axis, "dtype": dt}
        yh, yph = ref.hp(y), ref.hp(yp)
        cy, cp_ = yh - yh.mean(axis=axis, keepdims=True), yph - yph.mean(axis=axis, keepdims=True)
        wants = {
            "MSE": (mreg.MSE(y, yp, axis=axis), np.mean((yh - yph) ** 2, axis=axis)),
            "RMSE": (mreg.RMSE(y, yp, axis=axis), np.sqrt(np.mean((yh - yph) ** 2, axis=axis))),
            "correlation": (mreg.correlation(y, yp, axis=axis), np.mean(cy * cp_, axis=axis) / np.sqrt(np.mean(cy * cy, axis=axis) * np.mean(cp_ * cp_, axis=axis))),
            "covariance": (mreg.covariance(y, yp, axis=axis), np.mean(cy * cp_, axis=axis)),
            "variance": (mreg.variance(y, axis=axis), np.mean(cy * cy, axis=axis)),
            "standard_deviation": (mreg.standard_deviation(y, axis=axis), np.sqrt(np.mean(cy * cy, axis=axis))),
            "reflective_correlation": (mreg.reflective_correlation_coefficient(y, yp, axis=axis), np.sum(yh * yph, axis=axis) / np.sqrt(np.sum(yh ** 2, axis=axis) * np.sum(yph ** 2, axis=axis))),
        }
        if axis is None:
            wants["R2_score"] = (mreg.R2_score(y, yp), 1 - np.sum((yph - yh) ** 2) / np.sum(yh ** 2))
        for name, (got, want) in wants.items():
            got = np.asarray(got, dtype=float)
            lim = 2e3 * eps * (1 + np.max(np.abs(want))) * (1 + (1 / max(np.min(np.abs(np.mean(cy * cy, axis=axis))), 1e-3) if name == "correlation" else 0))
            if got.shape != np.shape(want) or not np.allclose(got, want, rtol=0, atol=lim):
                ctx.violation("C20:%s:definition:axis-%s" % (name, "none" if axis is None else "int"), "%s(axis=%r) = %r, definition gives %r" % (name, axis, got, want), desc)
        ctx.nontriv(dict(desc, h=float(np.sum(y))))
        if rs.rand() < 0.2:
            # half-precision measurements, many of them, with errors of a few units: the mean of the squares is a small number even
            # though their sum is beyond the format's range
            nbig = int(rs.randint(1500, 4000))
            e16 = (rs.standard_normal(nbig) * float(gen.choice(rs, [4.0, 8.0]))).astype(np.float16)
            y16 = (rs.standard_normal(nbig) * 3).astype(np.float16)
            p16 = (y16.astype(np.float32) + e16.astype(np.float32)).astype(np.float16)
            want_mse = float(np.mean((y16.astype(np.float64) - p16.astype(np.float64)) ** 2))
            ctx.count("half_precision_error_metrics")
            for nm_, got_, want_ in (("MSE", mreg.MSE(y16, p16), want_mse), ("RMSE", mreg.RMSE(y16, p16), np.sqrt(want_mse))):
                if not np.isfinite(float(got_)) or abs(float(got_) - want_) > 2e-2 * want_:
                    ctx.violation("C20:%s:definition:half-precision" % nm_, "%s of %d half-precision values = %r, definition gives %r" % (nm_, nbig, float(got_), want_), dict(desc, n=nbig))
    elif g == "leverage":
        n, r = int(rs.randint(1, 9)), int(rs.randint(1, 5))
        M = gen.arr(rs, [n, r], dt, gen.choice(rs, ["gauss", "int", "scaled"]))
        if rs.rand() < 0.3 and r > 1:
            M[:, -1] = M[:, 0]  # rank deficient
        if not np.any(M):
            M[0, 0] = 1
        desc = {"gen": g, "shape": [n, r], "dtype": dt}
        d = np.asarray(leverage_score_dist(M))
        if d.shape != (n,) or d.dtype != np.float64 or np.any(d < 0) or not np.all(np.isfinite(d)) or abs(float(d.sum()) - 1) > 200 * eps:
            ctx.violation("C20:leverage_score_dist:distribution:any", "leverage scores %r (dtype %s) are not a float64 probability vector (sum %r)" % (d, d.dtype, d.sum()), {"desc": desc, "M": M})
        ctx.nontriv(dict(desc, h=float(np.sum(M))))
    elif g == "zero_columns":
        F1 = [gen.arr(rs, [n, R], dt, "gauss") for n in rows]
        F2 = [gen.arr(rs, [n, R], dt, "gauss") for n in rows]
        which = gen.choice(rs, [F1, F2])
        which[int(rs.randint(nm))][:, int(rs.randint(R))] = 0
        desc = {"gen": g, "rows": rows, "rank": R}
        for name, f in (("congruence", lambda: congruence_coefficient(list(F1), list(F2))),
                        ("correlation_index", lambda: correlation_index(list(F1), list(F2), method=gen.choice(rs, ["max_score", "min_score", "avg_score"])))):
            try:
                out = f()
            except ValueError:
                ctx.count("zero_column_rejected")
            else:
                ctx.violation("C20:%s:zero-column-accepted:any" % name, "%s accepted a factor set with an all-zero column and returned %r" % (name, out), desc)
        ctx.nontriv(dict(desc, h=float(np.sum(F1[0]))))
    elif g == "permute":
        order = int(rs.randint(2, 5))
        shp = gen.shape(rs, order, 2, 6)
        R = int(rs.randint(1, 5))
        factors = [nonzero_cols(gen.arr(rs, [s, R], dt, "gauss")) for s in shp]
        pc = bool(dt == "float64" and rs.rand() < 0.12)
        if pc:
            factors = [f + 1j * rs.standard_normal(f.shape) for f in factors]     # a complex CP model
            ctx.count("permute_complex")
        w = rs.uniform(0.5, 2, R).astype(dt)
        Cc = np.ones((R, R))
        for f in factors:
            Cc = Cc * cos_matrix(f, f, True)
        if R > 1 and np.max(Cc - np.diag(np.diag(Cc))) > 0.9:
            ctx.skip("permute: reference components nearly collinear")
            return
        p = rs.permutation(R)
        scal = [rs.uniform(0.5, 2, R) * rs.choice([-1, 1], R) for _ in range(order)]
        if pc:
            scal = [s_ * np.exp(1j * rs.uniform(0, 2 * np.pi, R)) for s_ in scal]
        t = cpm.CPTensor(((w[p] / np.prod(scal, axis=0)).astype(np.complex128 if pc else dt), [(f[:, p] * s).astype(f.dtype) for f, s in zip(factors, scal)]))
        refc = cpm.CPTensor((w.copy(), [f.copy() for f in factors]))
        how_ref = gen.choice(rs, ["object", "object", "grown-object", "grown-attributes", "tuple"])
        if how_ref == "grown-object":
            # the reference built up one component first and then grown in place (greedy rank-one updates): it is its current content
            refc = cpm.CPTensor((w[:1].copy(), [f[:, :1].copy() for f in factors]))
            refc[1] = [f.copy() for f in factors]
            refc[0] = w.copy()
        elif how_ref == "grown-attributes":
            refc = cpm.CPTensor((w[:1].copy(), [f[:, :1].copy() for f in factors]))
            refc.factors = [f.copy() for f in factors]
            refc.weights = w.copy()
        elif how_ref == "tuple":
            refc = (w.copy(), [f.copy() for f in factors])
        ctx.count("permute_reference/" + how_ref)
        as_list = bool(rs.rand() < 0.6)
        before = ref.cp_dense(t.weights, t.factors)[0]
        out, permutation = cpm.cp_permute_factors(refc, [t] if as_list else t)
        if isinstance(out, list):
            out = out[0]
        desc = {"gen": g, "shape": shp, "rank": R, "dtype": dt, "list_input": as_list}
        after = ref.cp_dense(out.weights, out.factors)[0]
        if np.max(np.abs(after - before)) > 1e4 * eps * (np.max(np.abs(before)) + 1e-300) * R:
            ctx.violation("C20:cp_permute_factors:tensor-preserved:%s" % ("list" if as_list else "single"),
                          "permuting a CP tensor to match a reference changed the tensor it represents (max diff %.3g)" % float(np.max(np.abs(after - before))), desc)
            return
        for k in range(order):
            c = np.diag(cos_matrix(out.factors[k], factors[k], True))
            if np.any(c < 1 - 1e-4):
                ctx.violation("C20:cp_permute_factors:aligned:any", "components not aligned with the reference in mode %d (cosines %r)" % (k, c), desc)
                break
        if R > 1:
            ctx.nontriv(dict(desc, h=float(np.sum(factors[0]))))
    else:
        raise ValueError(g)
