"""C07 — exact block-coordinate algorithms never increase their objective (when block problems are well conditioned).

Iterates come from deterministic prefix runs (n_iter_max = 1..K, fixed seed), from the hals_nnls callback, and from
re-fitted regressors with growing budgets; the objective is recomputed from scratch from each iterate and consecutive
pairs are compared with one-sided slack. Reported error sequences must be non-increasing too.
"""
import numpy as np

from ..core import gen, ref, tol, decomp

ID = "C07"
RULE = ("seeded configurations of the algorithms named in the statement; every consecutive pair of iterates is one observation; "
        "pairs whose block normal matrices have cond > 1e6 at either iterate are skipped and counted; non-trivial = the objective "
        "strictly changes over the run; distinct = distinct configuration descriptors")
ASSUMPTIONS = ["objective recomputed by independent einsum reconstructions", "well conditioned = cond_2 of every block normal matrix <= 1e6 at both iterates",
               "one-sided slack 1e4*eps*|| |X| + M_abs ||^2", "multiplicative-update and ADMM variants are not in the statement's list and are not asserted"]
GENS = ["parafac", "nn_parafac_hals", "tucker", "parafac2", "tr_als", "cmtf", "hals_nnls", "cp_regressor", "tucker_regressor", "parafac_masked", "parafac2_warm"]
MAX_COND = 1e6
CASE_TIMEOUT = {"quick": 120, "thorough": 120}


def plan(tier, seed):
    n = 2700 if tier == "quick" else 36000
    return [{"gen": GENS[i % len(GENS)], "idx": i, "seed": seed} for i in range(n)]


def floors(tier):
    f = {"pairs/%s" % g: 150 for g in GENS}
    f["reported-sequence-pairs"] = 1000
    return f


def inconclusive_reasons(agg, tier):
    c = agg["counters"]
    pairs = sum(c.get("pairs", {}).values())
    skipped = sum(c.get("pairs_skipped_illconditioned", {}).values()) if isinstance(c.get("pairs_skipped_illconditioned"), dict) else 0
    if pairs + skipped and skipped > 0.35 * (pairs + skipped):
        return ["%d of %d sweep pairs skipped as ill-conditioned (> 35%%)" % (skipped, pairs + skipped)]
    return []


def bounds(tier):
    return {"orders": "2-4", "mode_sizes": "2-6", "ranks": "1-3", "K": "6 (10 with line search)"}


def _cond(G):
    G = ref.hp(G)
    if G.size == 0:
        return 1.0
    s = np.linalg.svd(G, compute_uv=False)
    return float(s[0] / s[-1]) if s[-1] > 0 else float("inf")


def cp_conds(w, factors, extra=None):
    R = factors[0].shape[1]
    grams = [ref.hp(f).T @ ref.hp(f) for f in factors]
    out = []
    for n in range(len(factors)):
        V = np.ones((R, R))
        for m, g in enumerate(grams):
            if m != n:
                V = V * g
        if n == 0 and extra is not None:
            V = V + extra
        if w is not None:
            V = V * np.outer(ref.hp(w), ref.hp(w))
        out.append(_cond(V))
    return max(out)


def block_cond(algo, dec, data=None):
    if algo in ("parafac", "nn_parafac_hals"):
        return cp_conds(dec[0], dec[1])
    if algo == "parafac2":
        w, (A, B, C), P = dec
        return cp_conds(w, [A, B, C])
    if algo == "cmtf":
        (w, fs), (w2, fm) = dec
        V = ref.hp(fm[1])
        return max(cp_conds(w, fs, extra=V.T @ V), _cond(ref.hp(fs[0]).T @ ref.hp(fs[0])))
    if algo == "tr_als":
        cores = [ref.hp(c) for c in dec]
        n = len(cores)
        worst = 1.0
        for d in range(n):
            sub = cores[(d + 1) % n]
            for j in range(2, n):
                sub = np.tensordot(sub, cores[(d + j) % n], axes=1)
            # sub: (r_{d+1}, n_{d+1}, ..., r_d) -> design (prod n) x (r_d * r_{d+1})
            mat = np.moveaxis(sub, 0, -1).reshape(-1, sub.shape[0] * sub.shape[-1]) if sub.ndim > 2 else sub
            mat = np.transpose(sub, list(range(1, sub.ndim - 1)) + [sub.ndim - 1, 0]).reshape(-1, sub.shape[-1] * sub.shape[0])
            worst = max(worst, _cond(mat.T @ mat))
        return worst
    return 1.0


def objective(algo, data, dec, opts):
    d = decomp.dense(algo, dec)
    dabs = decomp.dense(algo, decomp._absify(dec))
    if algo == "parafac2":
        X = [ref.hp(s) for s in data["slices"]]
        return sum(ref.frob_sq(x - m) for x, m in zip(X, d)), sum(ref.frob_sq(np.abs(x) + m) for x, m in zip(X, dabs))
    if algo == "cmtf":
        X, M = ref.hp(data["X"]), ref.hp(data["M"])
        return ref.frob_sq(X - d[0]) + ref.frob_sq(M - d[1]), ref.frob_sq(np.abs(X) + dabs[0]) + ref.frob_sq(np.abs(M) + dabs[1])
    X = ref.hp(data["X"])
    val = ref.frob_sq(X - d)
    sc = ref.frob_sq(np.abs(X) + dabs)
    if algo == "parafac" and opts.get("l2_reg"):
        pen = opts["l2_reg"] * sum(ref.frob_sq(f) for f in dec[1])
        val, sc = val + pen, sc + pen
    if algo == "nn_parafac_hals" and opts.get("sparsity_coefficients"):
        lam = opts["sparsity_coefficients"]
        pen = sum(l * float(np.sum(np.abs(ref.hp(f)))) for l, f in zip(lam, dec[1]))
        val, sc = 0.5 * val + pen, 0.5 * sc + pen
    return val, sc


def run_case(case, ctx):
    try:
        _run_case(case, ctx)
    except np.linalg.LinAlgError:
        ctx.skip("%s: singular block problem (LinAlgError): outside 'well conditioned'" % case["gen"])


def _run_case(case, ctx):
    import tensorly as tl
    g = case["gen"]
    rs = gen.rng(case["seed"], case["idx"], g)
    eps = tol.eps_of("float64")
    slack_c = 1e4

    if g == "hals_nnls":
        from tensorly.solvers.nnls import hals_nnls
        n, k = int(rs.randint(1, 9)), int(rs.randint(1, 6))
        m = n + int(rs.randint(0, 6))
        U = rs.standard_normal((m, n))
        if rs.rand() < 0.5:
            U = np.abs(U)
        M = U @ (rs.uniform(0, 2, (n, k)) * (rs.uniform(size=(n, k)) < 0.6)) + 0.3 * rs.standard_normal((m, k))
        UtU, UtM = U.T @ U, U.T @ M
        ls = float(gen.choice(rs, [0.0, 0.0, 0.1, 1.0]))
        lr = float(gen.choice(rs, [0.0, 0.0, 0.1, 1.0]))
        start = gen.choice(rs, ["cold", "warm", "zero"])
        V0 = None if start == "cold" else (rs.uniform(0, 2, (n, k)) if start == "warm" else np.zeros((n, k)))
        desc = {"gen": g, "n": n, "k": k, "l1": ls, "ridge": lr, "start": start}
        c = _cond(UtU + 2 * lr * np.eye(n))
        its = []

        def cb(V, err):
            its.append(np.array(V, dtype=float))
        kw = {}
        if ls:
            kw["sparsity_coefficient"] = ls
        if lr:
            kw["ridge_coefficient"] = lr
        if V0 is not None:
            its.append(V0.copy())
        hals_nnls(UtM.copy(), UtU.copy(), V=None if V0 is None else V0.copy(), n_iter_max=int(rs.randint(3, 30)), tol=1e-30, callback=cb, **kw)
        if c > MAX_COND:
            ctx.count("pairs_skipped_illconditioned/%s" % g, max(len(its) - 1, 0))
            return

        def f(V):
            return 0.5 * float(np.sum(V * (UtU @ V))) - float(np.sum(UtM * V)) + ls * float(np.sum(V)) + lr * float(np.sum(V * V))
        vals = [f(V) for V in its]
        scale = 0.5 * float(np.sum(np.abs(M) ** 2)) + max(abs(v) for v in vals) + 1.0
        changed = False
        for j in range(len(vals) - 1):
            ctx.count("pairs/%s" % g)
            changed = changed or vals[j + 1] < vals[j]
            if vals[j + 1] > vals[j] + slack_c * eps * scale:
                ctx.violation("C07:hals_nnls:descent:%s" % start, "hals_nnls objective rose from %.12g to %.12g at sweep %d" % (vals[j], vals[j + 1], j + 1), {"desc": desc, "objective": vals})
                return
        if changed:
            ctx.nontriv(dict(desc, h=float(np.sum(M))))
        ctx.sample({"case": desc, "sweeps": len(its)}, 2)
        return

    if g in ("cp_regressor", "tucker_regressor"):
        from tensorly.regression.cp_regression import CPRegressor
        from tensorly.regression.tucker_regression import TuckerRegressor
        n = int(rs.randint(8, 31))
        fshape = gen.shape(rs, int(rs.randint(2, 4)), 2, 5)
        X = rs.standard_normal([n] + fshape)
        reg = float(gen.choice(rs, [0.01, 1.0, 10.0]))
        seed = int(rs.randint(0, 2 ** 31 - 1))
        L = ref.L
        fs = L[1:1 + len(fshape)]
        if g == "cp_regressor":
            oshape = gen.choice(rs, [[], [], [int(rs.randint(1, 4))], [int(rs.randint(1, 4)), int(rs.randint(1, 4))],
                                     [int(rs.randint(1, 4)), int(rs.randint(2, 4)), int(rs.randint(2, 4))]])      # tensor-valued targets of any order
            rank = int(rs.randint(1, 4))
            y = rs.standard_normal([n] + oshape)
            mk = lambda it: CPRegressor(weight_rank=rank, tol=0, reg_W=reg, n_iter_max=it, random_state=seed, verbose=0)
        else:
            oshape = []
            rank = [int(rs.randint(1, min(s, 3) + 1)) for s in fshape]
            y = rs.standard_normal([n])
            mk = lambda it: TuckerRegressor(weight_ranks=rank, tol=0, reg_W=reg, n_iter_max=it, random_state=seed, verbose=0)
        via_set = bool(rs.rand() < 0.4)
        if via_set:
            # the penalty configured after construction (set_params, as a grid search does): the sweeps minimise the objective of the
            # value the estimator reports, not of the one it was built with
            mk0, other_reg = mk, float(gen.choice(rs, [0.001, 100.0]))

            def mk(it):
                e_ = mk0(it)
                e_.reg_W = other_reg
                e_ = type(e_)(**e_.get_params())
                e_.set_params(reg_W=reg)
                return e_
        desc = {"gen": g, "n": n, "features": fshape, "target": oshape, "rank": rank, "reg_W": reg, "reg_via_set_params": via_set}
        os_ = L[10:10 + len(oshape)]
        vals = []
        K = 6
        for it in range(1, K + 1):
            est = mk(it).fit(X.copy(), y.copy())
            if est.n_iterations_ < it:
                break
            if g == "cp_regressor":
                w_, Fs = est.cp_weight_
                W = ref.cp_dense(w_, [np.asarray(f) for f in Fs])[0]
                pen = reg * sum(ref.frob_sq(f) for f in Fs)
            else:
                G_, Fs = est.tucker_weight_
                W = ref.tucker_dense(np.asarray(G_), [np.asarray(f) for f in Fs])[0]
                pen = reg * (sum(ref.frob_sq(f) for f in Fs) + ref.frob_sq(G_))
            pred = np.einsum("a%s,%s%s->a%s" % (fs, fs, os_, os_), X, W)
            vals.append(ref.frob_sq(y - pred) + pen)
        scale = ref.frob_sq(y) + max(vals) + 1
        changed = False
        for j in range(len(vals) - 1):
            ctx.count("pairs/%s" % g)
            changed = changed or vals[j + 1] < vals[j]
            if vals[j + 1] > vals[j] + slack_c * eps * scale:
                ctx.violation("C07:%s:descent:any" % g, "%s ridge objective rose from %.12g to %.12g between %d and %d sweeps" % (g, vals[j], vals[j + 1], j + 1, j + 2), {"desc": desc, "objective": vals})
                return
        if changed:
            ctx.nontriv(dict(desc, seed=seed))
        ctx.sample({"case": desc, "objective": vals}, 2)
        return

    if g == "parafac_masked":
        # CP-ALS with missing entries is EM: every sweep solves its blocks exactly on the tensor imputed from the previous iterate, so the
        # misfit on the *observed* entries cannot rise from sweep k to k+1 (k >= 1) -- whether or not errors are tracked
        from tensorly import decomposition as D
        data = decomp.make_data(rs, "parafac", "float64")
        X = data["X"]
        rank = decomp.pick_rank(rs, "parafac", data)
        mask = (rs.uniform(size=X.shape) < float(gen.choice(rs, [0.6, 0.8, 0.9]))).astype(float)
        filler = float(gen.choice(rs, [0.0, 0.0, 5.0])) * float(np.max(np.abs(X)))
        Xin = X * mask + filler * (1 - mask)          # whatever sits in the missing cells must not matter after the first sweep
        track = gen.choice(rs, ["tol0", "tol0", "return_errors", "tol"])
        init = gen.choice(rs, ["svd", "random"])
        seed = int(rs.randint(0, 2 ** 31 - 1))
        K = 7
        desc = {"algo": "parafac", "data": data["cls"], "shape": list(X.shape), "rank": rank, "options": "masked+" + track, "missing": float(1 - mask.mean()), "filler": filler, "init": init}
        ctx.sample({"case": desc}, 3)
        kw = {"tol0": {"tol": 0}, "return_errors": {"tol": 0, "return_errors": True}, "tol": {"tol": 1e-100}}[track]
        its = []
        for k in range(1, K + 1):
            out = D.parafac(Xin.copy(), rank, n_iter_max=k, init=init, mask=mask.copy(), random_state=seed, **kw)
            cp = out[0] if type(out) is tuple else out
            its.append(decomp.snapshot(cp))
        Xh, mh = ref.hp(X), ref.hp(mask)
        vals = []
        for d in its:
            M_, Mabs_ = decomp.dense("parafac", d), decomp.dense("parafac", decomp._absify(d))
            vals.append((ref.frob_sq(mh * (Xh - M_)), ref.frob_sq(mh * (np.abs(Xh) + Mabs_))))
        conds = [block_cond("parafac", d) for d in its]
        changed = False
        for j in range(K - 1):
            if conds[j] > MAX_COND or conds[j + 1] > MAX_COND:
                ctx.count("pairs_skipped_illconditioned/%s" % g)
                continue
            ctx.count("pairs/%s" % g)
            (a, sa), (b, sb) = vals[j], vals[j + 1]
            changed = changed or b < a
            if not (np.isfinite(a) and np.isfinite(b)) or b > a + slack_c * eps * max(sa, sb):
                ctx.violation("C07:parafac:descent:masked+%s" % track, "masked CP-ALS: the misfit on the observed entries rose from %.12g to %.12g between sweeps %d and %d (filler %.3g, block cond %.3g / %.3g)" % (
                    a, b, j + 1, j + 2, filler, conds[j], conds[j + 1]), {"desc": desc, "objective": [v[0] for v in vals]})
                return
        if changed:
            ctx.nontriv(desc)
        return
    if g == "parafac2_warm":
        # PARAFAC2 restarted from a decomposition that carries non-unit weights (e.g. the result of a normalised run): the first sweeps
        # continue from that tensor, they do not rescale it
        from tensorly import decomposition as D
        data = decomp.make_data(rs, "parafac2", "float64", cls=gen.choice(rs, ["lowrank", "generic", "nonneg-lowrank"]))
        rank = decomp.pick_rank(rs, "parafac2", data)
        seed = int(rs.randint(0, 2 ** 31 - 1))
        first = D.parafac2(data["slices"], rank, n_iter_max=int(rs.randint(2, 6)), init="random", normalize_factors=True, random_state=seed, tol=0)
        w0, fs0, P0 = decomp.snapshot(first)
        o = {"linesearch": bool(rs.rand() < 0.3), "normalize_factors": bool(rs.rand() < 0.3)}
        desc = {"algo": "parafac2", "data": data["cls"], "shape": data["shape"], "rank": rank, "options": "warm-with-weights", "opts": o}
        ctx.sample({"case": desc}, 3)
        K = 5
        start = (objective("parafac2", data, (w0, fs0, P0), {}), block_cond("parafac2", (w0, fs0, P0)))
        vals, conds = [start[0]], [start[1]]
        for k in range(1, K + 1):
            r = D.parafac2(data["slices"], rank, n_iter_max=k, init=(w0.copy(), [f.copy() for f in fs0], [p_.copy() for p_ in P0]), random_state=seed, tol=0, **o)
            d = decomp.snapshot(r)
            vals.append(objective("parafac2", data, d, {}))
            conds.append(block_cond("parafac2", d))
        changed = False
        for j in range(K):
            if conds[j] > MAX_COND or conds[j + 1] > MAX_COND:
                ctx.count("pairs_skipped_illconditioned/%s" % g)
                continue
            ctx.count("pairs/%s" % g)
            (a, sa), (b, sb) = vals[j], vals[j + 1]
            changed = changed or b < a
            if not (np.isfinite(a) and np.isfinite(b)) or b > a + slack_c * eps * max(sa, sb):
                ctx.violation("C07:parafac2:descent:warm-with-weights", "parafac2 restarted from a decomposition with weights %s: objective rose from %.12g (%s) to %.12g after sweep %d" % (
                    np.round(w0, 3).tolist(), a, "the start" if j == 0 else "sweep %d" % j, b, j + 1), {"desc": desc, "objective": [v[0] for v in vals]})
                return
        if changed:
            ctx.nontriv(desc)
        return
    # ---- decompositions via prefix runs ---------------------------------------------------------------------------
    algo = g
    data = decomp.make_data(rs, algo, "float64")
    rank = decomp.pick_rank(rs, algo, data)
    order = len(data["shape"]) if data["kind"] == "tensor" else 3
    which, opts = decomp.option_sets(rs, algo, order)
    if algo == "parafac2" and rs.rand() < 0.35:
        # non-negativity on C but not on A, line search on, noisy data with exact zeros in C, enough sweeps for accepted jumps:
        # an extrapolated point must be made feasible before its error is accepted
        data = decomp.make_data(rs, algo, "float64", cls="sparseC-noisy")
        rank = decomp.pick_rank(rs, algo, data)
        which = "nn_modes-C-only+linesearch"
        opts = {"init": gen.choice(rs, ["random", "svd"]), "linesearch": True, "n_iter_parafac": int(gen.choice(rs, [2, 5])), "nn_modes": gen.choice(rs, [[2], [1, 2]])}
        if opts["init"] == "svd" and data["slices"][0].shape[1] < rank:
            opts["init"] = "random"
    if algo == "parafac" and which == "sparsity":
        which, opts = "plain", {"init": opts.get("init", "svd")}
    if algo == "nn_parafac_hals" and which == "sparsity":
        opts.pop("normalize_factors", None)
    if algo == "cmtf":
        rank = min(rank, min(data["shape"][0]), data["shape"][1][1])
    seed = int(rs.randint(0, 2 ** 31 - 1))
    K = (14 if which == "nn_modes-C-only+linesearch" else 10) if "linesearch" in which else 6
    if algo == "parafac" and "linesearch" in which and data["kind"] == "tensor" and rs.rand() < 0.7:
        # data recorded in small units (norm well below one) and a longer run: the line search's acceptance test compares like with
        # like whatever the units, and later jumps are longer
        u_ = float(gen.choice(rs, [1e-3, 1e-6]))
        data = dict(data, X=data["X"] * u_, cls=data["cls"] + "*unit%g" % u_)
        K = 18
        ctx.count("linesearch_small_units")
    user_init = None
    if algo == "tucker" and rs.rand() < 0.3:
        # complex-valued data: HOOI must use conjugate transposes throughout
        Xc = data["X"].astype(np.complex128)
        Xc = Xc + 1j * rs.standard_normal(Xc.shape) * (float(np.max(np.abs(Xc))) or 1.0)
        data = dict(data, X=Xc, cls=data["cls"] + "+complex")
    if algo in ("nn_parafac_hals", "parafac") and data["kind"] == "tensor" and rs.rand() < 0.3:
        # warm start with some modes kept fixed (HALS may also fix the last mode)
        shp_ = data["shape"]
        nfix = int(rs.randint(1, len(shp_)))
        fm = sorted(rs.choice(len(shp_) if algo == "nn_parafac_hals" else len(shp_) - 1, size=min(nfix, len(shp_) - 1), replace=False).tolist())
        if algo == "nn_parafac_hals" and rs.rand() < 0.5:
            # the reported error is only valid for the un-normalised last *updated* factor: fixed last mode + normalisation
            fm = sorted(set(fm[:-1] + [len(shp_) - 1])) if len(fm) > 1 or rs.rand() < 0.5 else fm
            opts = dict(opts, normalize_factors=True)
            which = which + "+normalize" if "normalize" not in which else which
        opts = dict(opts, fixed_modes=fm)
        opts.pop("init", None)
        opts.pop("sparsity_coefficients", None)
        pos = algo != "parafac"
        user_init = (None, [(np.abs(rs.standard_normal((s_, rank))) + 0.1 if pos else rs.standard_normal((s_, rank))) for s_ in shp_])
        which = which + "+fixed" + ("-last" if (len(shp_) - 1) in fm else "")
    desc = {"algo": algo, "data": data["cls"], "shape": data["shape"], "rank": rank, "options": which,
            "opts": {k: (sorted(v) if isinstance(v, set) else v) for k, v in opts.items()}}
    ctx.sample({"case": desc, "K": K}, 6)
    its, errsK = [], None
    for k in range(1, K + 1):
        r = decomp.run(algo, data, rank, k, dict(opts), seed, tol=1e-100, init=None if user_init is None else (None, [f.copy() for f in user_init[1]]))
        its.append(decomp.snapshot(r["decomp"]))
        errsK = r["errors"]
    vals = [objective(algo, data, d, opts) for d in its]
    conds = [block_cond(algo, d, data) for d in its]
    changed = False
    for j in range(K - 1):
        if conds[j] > MAX_COND or conds[j + 1] > MAX_COND:
            ctx.count("pairs_skipped_illconditioned/%s" % g)
            continue
        ctx.count("pairs/%s" % g)
        (a, sa), (b, sb) = vals[j], vals[j + 1]
        changed = changed or b < a
        if not (np.isfinite(a) and np.isfinite(b)) or b > a + slack_c * eps * max(sa, sb):
            ctx.violation("C07:%s:descent:%s" % (algo, which), "%s objective rose from %.12g to %.12g between sweeps %d and %d (block cond %.3g / %.3g)" % (
                algo, a, b, j + 1, j + 2, conds[j], conds[j + 1]), {"desc": desc, "objective": [v[0] for v in vals], "conds": conds})
            return
    if changed:
        ctx.nontriv(desc)
    # reported sequence non-increasing (on squares)
    penalised = (algo == "parafac" and opts.get("l2_reg")) or (algo == "nn_parafac_hals" and opts.get("sparsity_coefficients"))
    if penalised:
        errsK = None  # the reported value is the plain reconstruction error, which the penalised objective need not decrease
    if errsK and algo != "cmtf":
        sc = max(v[1] for v in vals) / max(vals[0][1] - 0, 1e-300)  # relative scale; conservative
        nx = ref.frob_sq(data["X"]) if data["kind"] == "tensor" else sum(ref.frob_sq(s) for s in data["slices"])
        for j in range(len(errsK) - 1):
            if j + 1 < K and (conds[j] > MAX_COND or conds[j + 1] > MAX_COND):
                continue
            ctx.count("reported-sequence-pairs")
            a, b = float(errsK[j]), float(errsK[j + 1])
            if not (np.isfinite(a) and np.isfinite(b)) or b * b > a * a + slack_c * eps * max(v[1] for v in vals) / nx:
                ctx.violation("C07:%s:reported-sequence:%s" % (algo, which), "%s reported errors increase: %.12g -> %.12g at position %d" % (algo, a, b, j + 1),
                              {"desc": desc, "errors": [float(e) for e in errsK], "conds": conds})
                return
    elif errsK and algo == "cmtf":
        for j in range(len(errsK) - 1):
            if j + 1 < K and (conds[j] > MAX_COND or conds[j + 1] > MAX_COND):
                continue
            ctx.count("reported-sequence-pairs")
            a, b = float(errsK[j]), float(errsK[j + 1])
            if b > a + slack_c * eps * max(v[1] for v in vals):
                ctx.violation("C07:cmtf:reported-sequence:%s" % which, "cmtf reported errors increase: %.12g -> %.12g" % (a, b), {"desc": desc, "errors": [float(e) for e in errsK]})
                return
