"""C09 — SVD-based decompositions: exact at sufficient rank, quasi-optimal below it, never better than their rank allows.

The error of the real Tucker (HOSVD+HOOI), TT-SVD, TT-matrix and TR-SVD decompositions is compared with bounds computed
from singular values of the unfoldings of the input, obtained independently with numpy.linalg.svd in float64.
"""
import numpy as np

from ..core import gen, ref, tol

ID = "C09"
RULE = ("seeded tensors of order 2-5 (generic, exactly low multilinear rank, exactly low TT rank, rank-deficient, integer) x rank "
        "vectors from all-ones to beyond the mode sizes x SVD method x HOOI sweeps x TR start mode; non-trivial = some discarded "
        "tail is non-zero or some unfolding is rank-deficient; distinct = distinct configuration descriptors")
ASSUMPTIONS = ["singular values of unfoldings from numpy.linalg.svd (float64) are the reference",
               "bounds use the RETURNED ranks; symeig_svd gets sqrt(eps) slack", "TR-SVD: exactness only, in the regime the algorithm can guarantee"]
GENS = ["tucker", "tt", "ttm", "tr"]


def plan(tier, seed):
    n = 12000 if tier == "quick" else 160000
    cases = [{"gen": GENS[i % len(GENS)], "idx": i, "seed": seed} for i in range(n)]
    # a handful of large unfoldings (hundreds of rows and columns): size-dependent solver choices only show there
    cases += [{"gen": "large", "idx": n + i, "seed": seed} for i in range(16 if tier == "quick" else 96)]
    return cases


def floors(tier):
    f = {"checked/%s" % g: 200 for g in GENS}
    f["large/tt-matrix-120x800"] = 1
    f.update({"clause/upper-bound": 500, "clause/lower-bound": 500, "clause/exact": 300, "clause/ranks-respected": 800})
    return f


def bounds(tier):
    return {"orders": "2-5", "mode_sizes": "1-5", "ranks": "1 .. beyond the mode sizes"}


def make_tensor(rs, shp, cls, dt, rescale=True):
    order = len(shp)
    if cls == "generic":
        X = rs.standard_normal(shp)
    elif cls == "integer":
        X = rs.randint(-3, 4, size=shp).astype(float)
    elif cls == "lowmultilinear":
        rk = [int(rs.randint(1, s + 1)) for s in shp]
        core = rs.standard_normal(rk)
        X = ref.tucker_dense(core, [rs.standard_normal((s, r)) for s, r in zip(shp, rk)])[0]
    elif cls == "lowtt":
        r = [1] + [int(rs.randint(1, 3)) for _ in range(order - 1)] + [1]
        X = ref.tt_dense([rs.standard_normal((r[k], shp[k], r[k + 1])) for k in range(order)])[0].reshape(shp)
    elif cls in ("int-dtype", "int-dtype-lowrank"):
        # integer *dtype* (not just integer values): the decomposition must not compute in integer arithmetic
        if cls == "int-dtype":
            X = rs.randint(-4, 5, size=shp)
        else:
            X = np.rint(ref.cp_dense(None, [rs.randint(-2, 3, size=(s, 2)).astype(float) for s in shp])[0])
        if not np.any(X):
            X[(0,) * order] = 1
        return X.astype(np.int64)
    elif cls == "nonneg-zero-slice":
        # non-negative data with an identically zero slice / block (sparse, structured data)
        X = rs.uniform(0.1, 1.0, shp)
        k = int(rs.randint(order))
        idx = [slice(None)] * order
        idx[k] = int(rs.randint(shp[k]))
        if shp[k] > 1:
            X[tuple(idx)] = 0.0
        if rs.rand() < 0.5:
            X = X * (rs.uniform(size=shp) < 0.6)
        if not np.any(X):
            X[(0,) * order] = 1.0
        return X.astype(dt)
    else:  # rankdef: duplicate a slice
        X = rs.standard_normal(shp)
        k = int(rs.randint(order))
        if shp[k] > 1:
            idx = [slice(None)] * order
            idx2 = list(idx)
            idx[k], idx2[k] = 0, 1
            X[tuple(idx2)] = X[tuple(idx)]
    if not np.any(X):
        X[(0,) * order] = 1.0
    X = X.astype(dt)
    # data in very small / very large absolute units: thresholds must be relative, never absolute
    sc = gen.choice(rs, [1.0, 1.0, 1.0, 1.0, 1e-18, 1e12] if np.dtype(dt) == np.float64 else [1.0, 1.0, 1.0, 1e-9, 1e6])
    if not rescale:
        sc = 1.0   # symeig_svd clips Gram eigenvalues at an absolute eps: it is not scale invariant (part of the C05 symeig finding)
    return (X * np.asarray(sc, dtype=dt)).astype(dt)


def _structured_square(rs, dt):
    a, b = int(rs.randint(1, 4)), int(rs.randint(1, 4))
    n = a * b
    kind = gen.choice(rs, ["symmetric-indefinite", "symmetric-indefinite", "symmetric-psd", "skew", "symmetric-zero-diagonal"])
    A = rs.standard_normal((n, n))
    if kind == "symmetric-indefinite":
        M = A + A.T
        M[np.diag_indices(n)] = np.abs(np.diag(M))
    elif kind == "symmetric-psd":
        M = A @ A.T
    elif kind == "skew":
        M = A - A.T
    else:
        M = A + A.T
        M[np.diag_indices(n)] = 0.0
    if not np.any(M):
        M = np.ones((n, n))
    shp = [n, n] if (b == 1 or rs.rand() < 0.5) else [n, a, b]
    return M.reshape(shp).astype(dt), shp, len(shp), kind


def tail_sq(sig, r):
    return float(np.sum(sig[r:] ** 2))


def run_case(case, ctx):
    import tensorly as tl
    from tensorly import decomposition as D

    g = case["gen"]
    rs = gen.rng(case["seed"], case["idx"], g)
    dt = "float32" if rs.rand() < 0.2 else "float64"
    eps = tol.eps_of(dt)
    ctx.count("checked/%s" % g)
    svd = gen.choice(rs, ["truncated_svd", "truncated_svd", "symeig_svd"]) if dt == "float64" else "truncated_svd"
    acc = (1e3 * np.sqrt(eps)) if svd == "symeig_svd" else 2e3 * eps
    cls = gen.choice(rs, ["generic", "generic", "lowmultilinear", "lowtt", "rankdef", "integer", "int-dtype", "int-dtype-lowrank", "nonneg-zero-slice"])
    if cls.startswith("int-dtype"):
        dt, eps = "float64", tol.eps_of("float64")
        acc = (1e3 * np.sqrt(eps)) if svd == "symeig_svd" else 2e3 * eps

    def viol(clause, sub, what, wit=None):
        ctx.violation("C09:%s:%s:%s" % (g, clause, sub), what, wit)

    if g == "large":
        which = gen.choice(rs, ["tt-matrix-120x800", "tucker-600x12x12", "tt-3-modes", "tt-very-wide-first-unfolding", "tt-very-wide-first-unfolding"])
        ctx.count("large/" + which)
        if which == "tt-very-wide-first-unfolding":
            # a short first mode against thousands of columns (a few channels x an image, a register of qubits), real or complex,
            # at ranks that discard nothing: exact
            a_ = int(rs.randint(2, 5))
            shp_ = [a_, int(rs.randint(64, 80)), int(rs.randint(64, 80))] if rs.rand() < 0.7 else [2] * 13
            X = rs.standard_normal(shp_)
            if rs.rand() < 0.6:
                X = X + 1j * rs.standard_normal(shp_)
                which += "+complex"
            rk_ = [1] + [10 ** 6] * (len(shp_) - 1) + [1]
            out = D.tensor_train(X, rk_)
            acc_ = np.asarray(out.factors[0])
            for c_ in out.factors[1:]:          # plain sequential contraction (an un-optimised einsum over 13 cores is exponential)
                acc_ = np.tensordot(acc_, np.asarray(c_), axes=([-1], [0]))
            rec = acc_.reshape(X.shape)
            r, bound = 0, 0.0
            ctx.count("large/" + which)
            err = float(np.sum(np.abs(X - rec) ** 2))
            desc = {"gen": g, "which": which, "shape": shp_}
            ctx.nontriv(desc)
            ctx.count("clause/exact")
            if err > 1e-18 * float(np.sum(np.abs(X) ** 2)):
                viol("exact", "large", "%s %s at full ranks: ||X-X^||^2/||X||^2 = %.3g" % (which, shp_, err / float(np.sum(np.abs(X) ** 2))), desc)
            return
        if which == "tt-matrix-120x800":
            X = rs.standard_normal((120, 800)) * np.geomspace(1, 1e-2, 800)
            r = int(rs.randint(3, 12))
            out = D.tensor_train(X, [1, r, 1])
            rec = ref.tt_dense([np.asarray(c) for c in out.factors])[0].reshape(X.shape)
            sig = np.linalg.svd(X, compute_uv=False)
            bound = tail_sq(sig, r)
        elif which == "tucker-600x12x12":
            X = rs.standard_normal((600, 12, 12))
            X = X * np.geomspace(1, 1e-2, 12)[None, :, None]
            r = int(rs.randint(3, 9))
            core, fs = D.tucker(X, [r, 12, 12], n_iter_max=int(gen.choice(rs, [0, 2])), init="svd", tol=0)
            rec = ref.tucker_dense(np.asarray(core), [np.asarray(f) for f in fs])[0]
            sig = np.linalg.svd(X.reshape(600, -1), compute_uv=False)
            bound = tail_sq(sig, r)       # only mode 0 truncates: the quasi-optimality bound is tight
        else:
            X = rs.standard_normal((110, 8, 70))
            r = int(rs.randint(3, 8))
            out = D.tensor_train(X, [1, r, 70, 1])
            rec = ref.tt_dense([np.asarray(c) for c in out.factors])[0].reshape(X.shape)
            sig = np.linalg.svd(X.reshape(110, -1), compute_uv=False)
            bound = tail_sq(sig, r)
        err = float(np.sum((np.asarray(X, dtype=np.longdouble) - np.asarray(rec, dtype=np.longdouble)) ** 2))
        desc = {"gen": g, "which": which, "rank": r}
        ctx.nontriv(desc)
        ctx.count("clause/upper-bound")
        ctx.count("clause/lower-bound")
        nxl = float(np.sum(X * X))
        if err > bound + 1e-9 * nxl:
            viol("upper-bound", "large", "%s at rank %d: error^2 %.9g exceeds the discarded tail %.9g (the only truncated unfolding)" % (which, r, err, bound), desc)
        elif err < bound - 1e-9 * nxl:
            viol("lower-bound", "large", "%s at rank %d: error^2 %.9g below the discarded tail %.9g" % (which, r, err, bound), desc)
        return
    if g == "tucker":
        order = int(rs.randint(2, 6))
        shp = gen.shape(rs, order, 1, 5 if order < 5 else 3)
        sweeps = int(gen.choice(rs, [0, 1, 5]))
        # symeig_svd's absolute floor only matters for the HOSVD start: once HOOI sweeps run (they use the LAPACK SVD) the units of
        # the data must not matter any more
        X = make_tensor(rs, shp, cls, dt, rescale=(svd != "symeig_svd" or sweeps >= 1))
        if dt == "float64" and X.dtype.kind == "f" and svd == "truncated_svd" and rs.rand() < 0.25:
            X = X.astype(np.complex128) + 1j * rs.standard_normal(shp) * (float(np.max(np.abs(X))) or 1.0)
            cls = cls + "+complex"
        Xh = ref.hp(X)
        nx = ref.frob_sq(Xh)
        rank = [int(rs.randint(1, s + 3)) for s in shp]
        if rs.rand() < 0.2:
            rank = [1] * order
        modes = list(range(order))
        if rs.rand() < 0.25:
            # only some modes decomposed (a batch mode left alone), ranks as one int or a list: same theorem over those modes
            k_ = int(rs.randint(1, order + 1))
            modes = sorted(rs.choice(order, size=k_, replace=False).tolist())
            if rs.rand() < 0.5:
                rint = int(rs.randint(1, max(shp) + 2))
                rank, rank_arg = [rint] * k_, rint
            else:
                rank = [rank[m] for m in modes]
                rank_arg = list(rank)
            ctx.count("tucker/partial-%s" % ("int" if isinstance(rank_arg, int) else "list"))
            (core, fs), _e = D.partial_tucker(X, rank_arg, modes=modes, n_iter_max=sweeps, init="svd", svd=svd, tol=0, random_state=0)
        else:
            out = D.tucker(X, rank, n_iter_max=sweeps, init="svd", svd=svd, tol=0, random_state=0)
            core, fs = out
        rr = [f.shape[1] for f in fs]
        desc = {"gen": g, "shape": shp, "class": cls, "rank": rank, "modes": modes, "returned": rr, "sweeps": sweeps, "svd": svd, "dtype": dt}
        sigs = [np.linalg.svd(ref.unfold(Xh, n), compute_uv=False) for n in modes]
        # the promise is stated for the requested ranks (beyond a mode's size nothing is discarded); the lower bound for the returned ones
        tails_req = [tail_sq(s, r) for s, r in zip(sigs, rank)]
        tails = [tail_sq(s, r) for s, r in zip(sigs, rr)]
        err = ref.frob_sq(Xh - ref.tucker_dense(core, fs, modes)[0])
        slack = acc * nx * order * 10
        ctx.count("clause/ranks-respected")
        if any(a > b for a, b in zip(rr, rank)):
            viol("ranks-respected", "any", "returned ranks %s exceed the requested %s" % (rr, rank), desc)
            return
        if max(tails) > 1e-20 * nx or cls in ("lowmultilinear", "rankdef"):
            ctx.nontriv(desc)
        ctx.sample({"case": desc, "error_sq": err, "tails_sq": tails}, 3)
        if all(t <= slack for t in tails_req):
            ctx.count("clause/exact")
            if err > slack * 10:
                viol("exact", svd, "all requested ranks cover the unfolding ranks but ||X-X^||^2/||X||^2 = %.3g" % (err / nx), desc)
            return
        amax = float(np.max(np.abs(Xh)))
        if svd == "symeig_svd" and not (1e-6 < amax < 1e6):
            # in extreme units the symeig HOSVD start is not an exact SVD (absolute floor): HOOI's quasi-optimality bound, which it
            # inherits from an exact HOSVD start, is then not promised; the exactness clause above is
            ctx.count("truncated_symeig_extreme_units_not_judged")
            return
        ctx.count("clause/upper-bound")
        if err > sum(tails_req) + slack:
            viol("upper-bound", svd, "error^2 %.6g exceeds the sum of discarded mode tails %.6g (requested ranks %s, returned %s)" % (err, sum(tails_req), rank, rr), desc)
        ctx.count("clause/lower-bound")
        if err < max(tails) - slack:
            viol("lower-bound", svd, "error^2 %.6g is below the largest single discarded tail %.6g: the returned ranks are not respected" % (err, max(tails)), desc)
        return

    if g in ("tt", "ttm"):
        if g == "tt":
            order = int(rs.randint(2, 6))
            shp = gen.shape(rs, order, 1, 5 if order < 5 else 3)
            X = make_tensor(rs, shp, cls, dt, rescale=(svd != "symeig_svd"))
            if rs.rand() < 0.12 and X.dtype.kind == "f":
                # an unfolding that happens to be a symmetric (or skew, or Hermitian-looking) indefinite square matrix with a
                # non-negative diagonal: a kernel / adjacency / Hessian-like table. Its SVD is not its eigendecomposition.
                X, shp, order, cls = _structured_square(rs, dt)
            if dt == "float64" and X.dtype.kind == "f" and svd == "truncated_svd" and rs.rand() < 0.15:
                # complex data: the remainder carried from one SVD to the next is S V of a complex SVD
                X = X.astype(np.complex128) + 1j * rs.standard_normal(shp) * (float(np.max(np.abs(X))) or 1.0)
                cls = cls + "+complex"
                ctx.count("tt_complex")
            Xh = ref.hp(X)
            eff_tensor = Xh
            eff = shp
        else:
            n = int(rs.randint(1, 4))
            left, right = gen.shape(rs, n, 1, 3), gen.shape(rs, n, 1, 3)
            X = make_tensor(rs, left + right, cls if cls != "lowtt" else "generic", dt, rescale=(svd != "symeig_svd"))
            Xh = ref.hp(X)
            perm = [i for pair in zip(range(n), range(n, 2 * n)) for i in pair]
            eff = [a * b for a, b in zip(left, right)]
            eff_tensor = Xh.transpose(perm).reshape(eff)
            order = n
        nx = ref.frob_sq(Xh)
        req = [1] + [int(rs.randint(1, 9)) for _ in range(order - 1)] + [1]
        if rs.rand() < 0.2:
            req = [1] * (order + 1)
        rank_arg = list(req)
        if g == "tt" and rs.rand() < 0.3:
            # the caller reuses one rank list: first on a smaller tensor (where ranks get clipped), then on this one
            small = make_tensor(rs, [max(1, s_ // 2) for s_ in shp], "generic", dt if dt != "float32" else "float32")
            D.tensor_train(small, rank_arg, svd=svd)
            if rank_arg != list(req):
                viol("ranks-respected", "caller-rank-list-edited", "tensor_train edited the caller's rank list: %s -> %s" % (req, rank_arg), {"shape": shp, "rank": req})
                return
        out = D.tensor_train(X, rank_arg, svd=svd) if g == "tt" else D.tensor_train_matrix(X, rank_arg, svd=svd)
        cores = [np.asarray(c) for c in out.factors]
        rr = [c.shape[0] for c in cores] + [cores[-1].shape[-1]]
        desc = {"gen": g, "shape": list(X.shape), "class": cls, "rank": req, "returned": rr, "svd": svd, "dtype": dt}
        rec = (ref.tt_dense(cores)[0].reshape(eff) if g == "tt" else ref.tt_matrix_dense(cores)[0].reshape(left + right))
        err = ref.frob_sq(Xh - rec)
        sigs = [np.linalg.svd(eff_tensor.reshape(int(np.prod(eff[:k])), -1), compute_uv=False) for k in range(1, order)]
        tails = [tail_sq(s, r) for s, r in zip(sigs, rr[1:-1])]
        # a rank clipped below the request (to the rows/columns of the running remainder) discards nothing at that step: the bound
        # is the one of the requested ranks
        tails_req = [tail_sq(s, r) for s, r in zip(sigs, req[1:-1])]
        slack = acc * nx * max(order, 2) * 10
        ctx.count("clause/ranks-respected")
        if any(a > b for a, b in zip(rr, req)):
            viol("ranks-respected", "any", "returned TT ranks %s exceed the requested %s" % (rr, req), desc)
            return
        if (tails and max(tails) > 1e-20 * nx) or cls in ("lowtt", "rankdef"):
            ctx.nontriv(desc)
        ctx.sample({"case": desc, "error_sq": err, "tails_sq": tails}, 3)
        if all(t <= slack for t in tails_req):
            ctx.count("clause/exact")
            if err > slack * 10:
                viol("exact", svd, "all requested ranks cover the sequential unfolding ranks but ||X-X^||^2/||X||^2 = %.3g" % (err / nx), desc)
            return
        ctx.count("clause/upper-bound")
        if err > sum(tails_req) + slack:
            viol("upper-bound", svd, "error^2 %.6g exceeds the sum of discarded sequential tails %.6g (requested %s, returned %s)" % (err, sum(tails_req), req, rr), desc)
        ctx.count("clause/lower-bound")
        if err < max(tails) - slack:
            viol("lower-bound", svd, "error^2 %.6g is below the largest single discarded tail %.6g" % (err, max(tails)), desc)
        return

    # ---- TR-SVD: exactness in the regime the algorithm can guarantee ----------------------------------------------------
    order = int(rs.randint(2, 6))
    shp = gen.shape(rs, order, 1, 4 if order < 5 else 3)
    X = make_tensor(rs, shp, cls, dt, rescale=(svd != "symeig_svd"))
    if rs.rand() < 0.12 and X.dtype.kind == "f":
        X, shp, order, cls = _structured_square(rs, dt)
    if dt == "float64" and X.dtype.kind == "f" and svd == "truncated_svd" and rs.rand() < 0.15:
        X = X.astype(np.complex128) + 1j * rs.standard_normal(shp) * (float(np.max(np.abs(X))) or 1.0)
        cls = cls + "+complex"
        ctx.count("tr_complex")
    Xh = ref.hp(X)
    nx = ref.frob_sq(Xh)
    mode = int(rs.randint(order))
    rshp = shp[mode:] + shp[:mode]
    n_row, n_col = rshp[0], int(np.prod(rshp[1:]))
    first = np.linalg.svd(np.transpose(Xh, list(range(mode, order)) + list(range(mode))).reshape(n_row, n_col), compute_uv=False)
    rk1 = int(np.sum(first > 1e-10 * max(first[0], 1e-300)))
    # choose r0*r1 in [rank of the first unfolding, min(n_row, n_col)], later ranks huge (no truncation)
    cands = [(a, b) for a in range(1, 5) for b in range(1, 7) if rk1 <= a * b <= min(n_row, n_col)]
    if not cands:
        ctx.skip("tr: no (r0, r1) with rank(first unfolding) <= r0*r1 <= min(first unfolding dims)")
        return
    r0, r1 = cands[int(rs.randint(len(cands)))]
    rot = [r0, r1] + [1000] * (order - 2) + [r0]
    if order == 2:
        rot = [r0, r1, r0]
    # rotate the requested ranks back so that position `mode` holds r0
    req = rot[:-1]
    req = req[-mode:] + req[:-mode] if mode else req
    req = req + [req[0]]
    desc = {"gen": g, "shape": shp, "class": cls, "mode": mode, "rank": req, "svd": svd, "dtype": dt}
    try:
        out = D.tensor_ring(X, list(req), mode=mode, svd=svd)
    except ValueError as e:
        viol("raises-ValueError", "mode%d" % min(mode, 2), "tensor_ring rejected ranks that fit the first unfolding: %s" % str(e)[:150], desc)
        return
    cores = [np.asarray(c) for c in out.factors]
    rr = [c.shape[0] for c in cores] + [cores[-1].shape[2]]
    err = ref.frob_sq(Xh - ref.tr_dense(cores)[0])
    ctx.count("clause/ranks-respected")
    if any(a > b for a, b in zip(rr, req)):
        viol("ranks-respected", "mode%d" % min(mode, 2), "returned TR ranks %s exceed the requested %s" % (rr, req), desc)
        return
    ctx.nontriv(desc)
    ctx.sample({"case": desc, "returned": rr, "error_sq": err}, 3)
    ctx.count("clause/exact")
    if err > acc * nx * order * 100:
        viol("exact", "mode%d" % min(mode, 2), "no truncation was requested (r0*r1=%d >= rank %d of the first unfolding, later ranks unbounded) but ||X-X^||^2/||X||^2 = %.3g; returned ranks %s" % (
            r0 * r1, rk1, err / nx, rr), desc)
