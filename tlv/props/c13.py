"""C13 — NNLS solvers return KKT-optimal non-negative solutions (HALS, FISTA, active set; ADMM unconstrained).

Each case builds a well-conditioned (cond <= 50) least-squares problem, hands the normal-equation data to a real
solver with an explicit iteration budget, and judges the returned point by (a) non-negativity, (b) a KKT certificate
computed from the harness' own copies of UtU/UtM, (c) the objective gap to an independent reference
(scipy.optimize.nnls on the Cholesky-transformed penalised problem). "Run to convergence" is restated as a bounded
budget: KKT missed but objective matched = inconclusive(budget), both missed = violation.
"""
import numpy as np

from ..core import gen, ref, tol

ID = "C13"
RULE = ("seeded designs (1-8 unknowns, 1-5 right-hand sides, signed / non-negative, cond <= 50) with planted solutions having "
        "active and inactive constraints, cold/warm starts, l1/ridge in {0,0.1,1}; non-trivial = at least one constraint active "
        "at the optimum or a penalty present; distinct = distinct (solver, sizes, class, start, penalties, content hash)")
ASSUMPTIONS = ["scipy.optimize.nnls (Lawson-Hanson) on the Cholesky-transformed problem is the reference",
               "well conditioned: cond(U) <= 50, no zero columns", "budgets: hals 4000 sweeps (tol 1e-15, or exact fixed point), fista 4000 iterations tol 0, active set 1000"]
SOLVERS = ["hals", "fista", "active_set", "admm_ls"]
MAX_INCONCLUSIVE_FRACTION = 0.10
CASE_TIMEOUT = {"quick": 60, "thorough": 60}


def plan(tier, seed):
    n = 3200 if tier == "quick" else 40000
    cases = [{"gen": SOLVERS[i % len(SOLVERS)], "idx": i, "seed": seed} for i in range(n)]
    # the active-set solver is cheap (one right-hand side) and its interesting paths (backtracking with a blocked variable, restart
    # after a singular passive set) are rare events of warm starts: four times as many cases
    cases += [{"gen": "active_set", "idx": n + i, "seed": seed} for i in range(3 * n // 4)]
    return cases


def floors(tier):
    f = {"checked/%s" % s: 300 for s in SOLVERS}
    f.update({"kkt_certified": 1500, "objective_matched_reference": 1500, "active_constraints_at_optimum": 500})
    return f


def bounds(tier):
    return {"unknowns": "1-8", "rhs": "1-5", "cond": "<= 50", "penalties": [0, 0.1, 1]}


def make_problem(rs, n, k, cls, slow_solver=False):
    m = n + int(rs.randint(0, 6))
    # design with controlled conditioning
    Q1 = np.linalg.qr(rs.standard_normal((m, n)))[0]
    Q2 = np.linalg.qr(rs.standard_normal((n, n)))[0]
    cond = float(gen.choice(rs, [1.0, 3.0, 10.0, 10.0, 30.0] if slow_solver else [1.0, 3.0, 10.0, 50.0]))
    sv = np.geomspace(1.0, 1.0 / cond, n) * float(gen.choice(rs, [1.0, 1.0, 5.0]))
    U = (Q1 * sv) @ Q2.T
    if cls.startswith("nonneg-design"):
        U = np.abs(U)
        if np.linalg.cond(U) > 50:
            U = U + 0.5 * np.eye(m, n)
    kind = cls.split("/")[1]
    if kind == "interior":
        X = rs.uniform(0.5, 2.0, (n, k))
    elif kind == "active":
        X = rs.uniform(0.5, 2.0, (n, k)) * (rs.uniform(size=(n, k)) < 0.5)
    elif kind == "allzero":
        X = np.zeros((n, k))
    else:  # free: unconstrained solution has negative parts
        X = rs.standard_normal((n, k))
    M = U @ X
    if kind == "allzero":
        M = -U @ rs.uniform(0.5, 2.0, (n, k))
    if kind != "interior" or rs.rand() < 0.5:
        M = M + 0.3 * rs.standard_normal(M.shape)
    return U, M


def reference(UtU, UtM, ls, lr):
    from scipy.optimize import nnls
    n, k = UtM.shape
    G = UtU + 2 * lr * np.eye(n)
    B = UtM - ls
    Lc = np.linalg.cholesky(G)
    X = np.zeros((n, k))
    for j in range(k):
        X[:, j] = nnls(Lc.T, np.linalg.solve(Lc, B[:, j]), maxiter=50 * n + 100)[0]
    return X


def objective(UtU, UtM, X, ls, lr):
    # 1/2||M-UX||^2 up to the constant 1/2||M||^2
    return float(0.5 * np.sum(X * (UtU @ X)) - np.sum(UtM * X) + ls * np.sum(X) + lr * np.sum(X * X))


def run_case(case, ctx):
    import tensorly as tl
    from tensorly.solvers.nnls import hals_nnls, fista, active_set_nnls
    from tensorly.solvers.admm import admm

    solver = case["gen"]
    rs = gen.rng(case["seed"], case["idx"], solver)
    n = int(rs.randint(1, 9))
    k = 1 if solver == "active_set" else int(rs.randint(1, 6))
    cls = gen.choice(rs, ["signed-design", "nonneg-design"]) + "/" + gen.choice(rs, ["interior", "active", "active", "free", "allzero"])
    U, M = make_problem(rs, n, k, cls, slow_solver=(solver == "hals"))
    if solver in ("hals", "fista", "active_set") and n >= 2 and rs.rand() < 0.12:
        # structured, well-conditioned designs: equally long, negatively correlated regressors (a Gram matrix with constant row sums
        # whose dominant eigenvector is orthogonal to the all-ones vector), circulant shifted-kernel designs, and data whose
        # unconstrained coefficients are all negative although the constrained optimum is not zero
        kind_s = gen.choice(rs, ["equicorrelated-negative", "circulant", "ls-all-negative", "exact-arithmetic", "exact-arithmetic"])
        if kind_s == "exact-arithmetic":
            # small-integer data whose Gram matrix has equal column sums and a power-of-two largest eigenvalue: every early iterate
            # is exactly representable, steps that only move mass between entries have a signed sum of exactly zero
            p_, q_ = [(3, 1), (5, 3), (7, 1), (3, -1), (5, -1), (6, 2)][int(rs.randint(6))]
            n = 2
            U = np.array([[p_, q_], [q_, p_]], dtype=float)
            xt = np.array([[3.0, 1.0], [1.0, 3.0], [0.75, 1.75], [2.0, 0.0], [1.5, 0.5]])[rs.permutation(5)[:k]].T
            M = U @ xt
        elif kind_s == "circulant":
            ker = rs.standard_normal(n) * np.array([1.0] + [0.4] * (n - 1))
            ker -= ker.mean() * float(gen.choice(rs, [0.0, 0.8]))
            U = np.stack([np.roll(ker, j_) for j_ in range(n)], axis=1)
            if np.linalg.cond(U) > 50:
                U = U + 1.5 * np.eye(n)
            M = U @ (rs.uniform(0.5, 2, (n, k)) * (rs.uniform(size=(n, k)) < 0.6)) + 0.2 * rs.standard_normal((n, k))
        else:
            a_ = float(rs.uniform(0.35, 0.9)) / (n - 1)            # correlation -a: Gram = (1+a) I - a 11^T, positive definite
            G_ = (1 + a_) * np.eye(n) - a_ * np.ones((n, n))
            U = np.linalg.cholesky(G_).T * float(gen.choice(rs, [1.0, 3.0]))
            if kind_s == "ls-all-negative":
                xls = -rs.uniform(0.05, 2.0, (n, k)) * np.where(rs.uniform(size=(n, k)) < 0.4, 0.05, 1.0)
                M = U @ xls
            else:
                M = U @ rs.standard_normal((n, k)) + 0.2 * rs.standard_normal((n, k))
        cls = kind_s + "/structured"
        ctx.count("structured_designs/" + kind_s)
    if np.linalg.cond(U) > 60:
        ctx.skip("design not well conditioned")
        return
    # the same problem recorded in other units (design and data scaled alike): the minimiser does not change, so no absolute
    # threshold inside a solver may decide anything; absolute parameters (penalties, the active-set gradient tolerance) are
    # scaled with the problem
    unit = float(gen.choice(rs, [1.0] * 6 + [1e-9, 1e6])) if solver != "admm_ls" else 1.0
    if unit != 1.0:
        U, M = U * unit, M * unit
        ctx.count("problems_in_other_units")
    u2 = unit * unit
    int_eq = False
    if unit == 1.0 and solver in ("hals", "fista", "active_set") and rs.rand() < 0.06:
        # count data: an integer-valued design and data, the normal equations handed over as integer arrays
        Ui = np.rint(U * 3).astype(np.int64)
        Mi = np.rint(M * 3).astype(np.int64)
        if np.linalg.matrix_rank(Ui) == Ui.shape[1] and np.linalg.cond(Ui.astype(float)) <= 50:
            U, M = Ui.astype(float), Mi.astype(float)
            int_eq = True
            ctx.count("integer_normal_equations")
    UtU, UtM = U.T @ U, U.T @ M
    if int_eq:
        UtU, UtM = np.rint(UtU).astype(np.int64), np.rint(UtM).astype(np.int64)
    ctx.count("checked/%s" % solver)
    desc = {"solver": solver, "n": n, "k": k, "class": cls, "cond": round(float(np.linalg.cond(U)), 2)}

    if solver == "admm_ls":
        # ADMM with n_const=None returns the unconstrained LS solution of  min ||X - x K^T||  given UtM = X K, UtU = K^T K
        rows = int(rs.randint(1, 6))
        K = U  # (m x n) design
        Xd = rs.standard_normal((rows, K.shape[0]))
        UtM_a, UtU_a = Xd @ K, K.T @ K
        x0 = rs.standard_normal((rows, n))
        # the dual variable is an arbitrary carried-over state (constrained_parafac keeps it between outer iterations): the
        # unconstrained answer does not depend on it
        dual = np.zeros((rows, n)) if rs.rand() < 0.4 else rs.standard_normal((rows, n))
        desc["dual"] = "zero" if not np.any(dual) else "non-zero"
        ctx.count("admm_dual/" + desc["dual"])
        out = admm(UtM_a.copy(), UtU_a.copy(), x0.copy(), dual.copy(), n_const=None)
        x = np.asarray(out[0])
        want = np.linalg.lstsq(K, Xd.T, rcond=None)[0].T
        ctx.nontriv(dict(desc, h=float(np.sum(Xd))))
        lim = 1e-9 * (1 + np.max(np.abs(want))) * np.linalg.cond(U) ** 2
        if x.shape != want.shape or not np.all(np.isfinite(x)) or np.max(np.abs(x - want)) > lim:
            ctx.violation("C13:admm:unconstrained-ls:any", "admm(n_const=None) is not the least-squares solution (max diff %.3g, tol %.3g)" % (
                float(np.max(np.abs(x - want))) if x.shape == want.shape else float("nan"), lim), {"desc": desc, "got": x, "want": want})
        else:
            ctx.count("objective_matched_reference")
            ctx.count("kkt_certified")
        return

    ls = float(gen.choice(rs, [0.0, 0.0, 0.1, 1.0])) * u2 if solver != "active_set" else 0.0
    lr = float(gen.choice(rs, [0.0, 0.0, 0.1, 1.0])) * u2 if solver != "active_set" else 0.0
    exact_arith = cls.startswith("exact-arithmetic")
    if exact_arith:
        ls = lr = 0.0        # penalties would spoil the exact arithmetic these cases are about
    start = gen.choice(rs, (["cold", "cold", "warm-uniform", "warm-uniform"] if exact_arith else ["cold", "cold", "warm-random", "warm-zero", "warm-solution"]) if solver != "active_set" else
                       ["cold", "warm-random", "warm-random", "warm-random", "warm-zero", "warm-solution", "warm-far"])
    Xref = reference(UtU / u2, UtM / u2, ls / u2, lr / u2)   # the reference is computed in unit scale (same minimiser)
    if start == "cold":
        x0 = None
    elif start == "warm-random":
        x0 = rs.uniform(0, 2, (n, k))
    elif start == "warm-far":
        # a previous solution in other (raw) units: far from the optimum, some variables at zero that have to enter
        x0 = rs.uniform(0, 2, (n, k)) * float(gen.choice(rs, [1e4, 1e6, 1e8])) * (rs.uniform(size=(n, k)) < 0.6)
    elif start == "warm-uniform":
        x0 = np.ones((n, k)) * float(gen.choice(rs, [1.0, 2.0]))        # the uniform guess: a point of the sum-preserving set
    elif start == "warm-zero":
        x0 = np.zeros((n, k))
    else:
        x0 = Xref.copy()
    desc.update(l1=ls, ridge=lr, start=start, unit=unit)
    n_active = int(np.sum(Xref <= 1e-12))
    if n_active or ls or lr:
        ctx.nontriv(dict(desc, h=float(np.sum(M))))
    if n_active:
        ctx.count("active_constraints_at_optimum")
    ctx.sample({"case": desc, "active_at_optimum": n_active}, 5)
    bound_eps = 0.0
    # the normal equations belong to the caller: in a third of the cases they are handed over as shared read-only arrays (a frozen /
    # memory-mapped Gram matrix reused along a regularisation path), and for HALS a first solve on the very same arrays is aborted
    # by its callback before the judged solve
    shared = bool(rs.rand() < 0.35)
    desc["arrays"] = "shared-readonly" if shared else "private-copies"
    if shared:
        ctx.count("shared_readonly_arrays")
        UtM_s, UtU_s = UtM.copy(), UtU.copy()
        UtM_s.setflags(write=False)
        UtU_s.setflags(write=False)
        give = lambda a: {id(UtM): UtM_s, id(UtU): UtU_s}[id(a)]  # noqa
    else:
        give = lambda a: a.copy()  # noqa
    if solver == "hals":
        kw = {}
        if ls:
            kw["sparsity_coefficient"] = ls
        if lr:
            kw["ridge_coefficient"] = lr
        sweeps = [0]

        def cb(V, step_sq):
            # "run to convergence": stop at an exact fixed point (the library's own relative criterion never fires when
            # the very first sweep already changes nothing, e.g. a warm start at the solution)
            sweeps[0] += 1
            if bool(step_sq <= 1e-30 * (1.0 + float(np.sum(V * V)))):
                return True
            # documented: the sweeps end when the callback returns True; a monitor's other return values (a count, the step it
            # was given, a record) do not end them
            return monitor_value(sweeps[0], step_sq)
        mv = gen.choice(rs, ["false", "none", "count", "step", "record"])
        ctx.count("hals_callback_returns/%s" % mv)
        monitor_value = {"false": lambda c, s_: False, "none": lambda c, s_: None, "count": lambda c, s_: c, "step": lambda c, s_: float(s_) + 1.0,
                         "record": lambda c, s_: [c, s_]}[mv]
        if shared:
            class _Abort(Exception):
                pass

            def cb_abort(V, step_sq):
                raise _Abort()
            try:
                hals_nnls(UtM_s, UtU_s, n_iter_max=5, tol=1e-15, callback=cb_abort, **dict(kw, sparsity_coefficient=float(gen.choice(rs, [0.5, 2.0]))))
            except _Abort:
                ctx.count("hals_aborted_presolve")
        X = hals_nnls(give(UtM), give(UtU), V=None if x0 is None else x0.copy(), n_iter_max=4000, tol=1e-15, callback=cb, **kw)
        ctx.count("hals_sweeps_total", sweeps[0])
    elif solver == "fista":
        eps_f = float(gen.choice(rs, [1e-8, 0.0]))
        desc["epsilon"] = eps_f
        bound_eps = eps_f
        if rs.rand() < 0.3:
            # the cross-product handed over in its list form (one Gram matrix per mode, as the Tucker core update does): the same problem,
            # hence the same minimiser; the step size has to be supplied in that form
            ctx.count("fista_list_form")
            desc["UtU_form"] = "list"
            step = 1.0 / (float(np.linalg.eigvalsh(UtU)[-1]) + 2 * lr)
            X = fista(give(UtM), [give(UtU)], x=None if x0 is None else x0.copy(), n_iter_max=4000, non_negative=True,
                      sparsity_coef=ls, ridge_coef=lr, tol=0.0, epsilon=eps_f, lr=step)
        else:
            X = fista(give(UtM), give(UtU), x=None if x0 is None else x0.copy(), n_iter_max=4000, non_negative=True,
                      sparsity_coef=ls, ridge_coef=lr, tol=0.0, epsilon=eps_f)
    else:
        xv = None if x0 is None else x0[:, 0].copy()
        v0 = UtM[:, 0].copy()
        if shared:
            v0.setflags(write=False)
        X = active_set_nnls(v0, give(UtU), x=xv, n_iter_max=1000, tol=1e-7 * u2)
        X = np.asarray(X).reshape(n, 1)
    X = np.asarray(X, dtype=float)
    icls = ("allzero-solution" if not np.any(Xref) else "generic") + "+" + ("cold" if x0 is None else "warm")

    if X.shape != (n, k) or not np.all(np.isfinite(X)):
        ctx.violation("C13:%s:finite:%s" % (solver, icls), "%s returned a non-finite or mis-shaped solution (shape %s)" % (solver, X.shape), {"desc": desc, "UtU": UtU, "UtM": UtM, "got": X})
        return
    if np.any(X < 0):
        ctx.violation("C13:%s:non-negative:%s" % (solver, icls), "%s returned a negative entry %r" % (solver, float(X.min())), {"desc": desc, "UtU": UtU, "UtM": UtM, "got": X})
        return
    g = UtU @ X - UtM + ls + 2 * lr * X
    gscale = u2 + float(np.max(np.abs(UtM))) + float(np.linalg.norm(UtU, 2)) * float(np.max(np.abs(X)))
    ktol = 1e-6 * gscale
    at_bound = X <= bound_eps * 2 + 1e-12
    kkt = bool(np.all(g[at_bound] >= -ktol) and np.all(np.abs(g[~at_bound]) <= ktol))
    f_got, f_ref = objective(UtU, UtM, X, ls, lr), objective(UtU, UtM, Xref, ls, lr)
    fscale = u2 + abs(f_ref) + float(0.5 * np.sum(M * M))
    matched = f_got <= f_ref + 1e-6 * fscale + 10 * bound_eps * gscale * X.size
    if kkt:
        ctx.count("kkt_certified")
    if matched:
        ctx.count("objective_matched_reference")
    if not kkt and not matched:
        ctx.violation("C13:%s:optimal:%s" % (solver, icls),
                      "%s: KKT violated (worst %.3g, tol %.3g) and objective %.9g above the reference optimum %.9g" % (
                          solver, float(max(np.max(-g[at_bound], initial=0), np.max(np.abs(g[~at_bound]), initial=0))), ktol, f_got, f_ref),
                      {"desc": desc, "UtU": UtU, "UtM": UtM, "got": X, "ref": Xref})
    elif not kkt:
        ctx.inconc("%s: budget exhausted before KKT tolerance (objective matches the reference)" % solver)
    elif not matched:
        ctx.violation("C13:%s:objective-gap:%s" % (solver, icls), "%s: KKT holds to tolerance but objective %.9g above reference %.9g" % (solver, f_got, f_ref),
                      {"desc": desc, "UtU": UtU, "UtM": UtM, "got": X, "ref": Xref})
