"""C08 — decomposition outputs honour requested structure and canonical form.

Direct predicates on the objects returned by the real decompositions: shapes vs (mode size, validated rank), format
boundary conditions, orthonormality, core = projection, left-orthogonality of TT-SVD cores, PARAFAC2 projections, and
the normalisation contract on both stopping paths (tolerance-stopped and iteration-cap).
"""
import numpy as np

from ..core import gen, ref, tol, decomp

ID = "C08"
RULE = ("seeded (decomposition, tensor, rank specification, options, stopping path) configurations; non-trivial = some rank > 1 "
        "and the tensor has more than one mode of size > 1; distinct = distinct configuration descriptors")
ASSUMPTIONS = ["expected ranks re-derived independently for int/list specifications; for 'same'/fraction specifications only "
               "consistency with validate_*_rank and with the data shape is asserted",
               "HOOI orthonormality is asserted for SVD init or after at least one sweep (a random init returned untouched by n_iter_max=0 is not HOOI output)"]
GENS = ["cp_norm", "cp_shape", "tucker", "partial_tucker", "tt", "ttm", "tr", "tr_als", "parafac2", "cmtf", "tucker_norm"]
CASE_TIMEOUT = {"quick": 120, "thorough": 120}


def plan(tier, seed):
    n = 3000 if tier == "quick" else 40000
    return [{"gen": GENS[i % len(GENS)], "idx": i, "seed": seed} for i in range(n)]


def floors(tier):
    f = {"checked/%s" % g: 150 for g in GENS}
    f.update({"clause/normalised-columns": 150, "clause/unit-weights": 150, "stop/converged": 100, "stop/cap": 100,
              "clause/orthonormal": 300, "clause/core-projection": 150, "clause/left-orthogonal": 150, "clause/projections": 100})
    return f


def bounds(tier):
    return {"orders": "2-5", "mode_sizes": "1-6", "rank_specs": ["int", "list", "same", "fraction"]}


def _documented_rank(shape, fraction):
    """Documented rank for a float/'same' specification: round(c*I_k) with c the root of c^N prod(I) + c sum(I_k^2) = fraction prod(I),
    by plain bisection. None when some c*I_k is too close to a rounding boundary to be decided independently of the root finder."""
    shape = [int(s_) for s_ in shape]
    n, P, S = len(shape), float(np.prod(shape)), float(sum(s_ * s_ for s_ in shape))
    f = lambda c: P * c ** n + S * c - fraction * P
    lo, hi = 0.0, max(fraction, 1.0)
    for _ in range(200):
        mid = 0.5 * (lo + hi)
        if f(mid) > 0:
            hi = mid
        else:
            lo = mid
    c = 0.5 * (lo + hi)
    if any(abs((s_ * c) % 1.0 - 0.5) < 1e-6 for s_ in shape):
        return None
    return [max(int(np.round(s_ * c)), 1) for s_ in shape]


def _unit_or_zero(f, w_r, eps, r):
    n = np.linalg.norm(ref.hp(f)[:, r])
    if w_r is not None and w_r == 0 and np.isfinite(n):
        # a component that vanished altogether (weight exactly 0): what is left of its columns is rounding debris in the subnormal
        # range (1e-162), whose "unit" normalisation is only accurate to a few per cent. Nothing carries scale here.
        return True
    return abs(n - 1) <= 100 * eps or (n == 0 and (w_r is None or w_r == 0))


def run_case(case, ctx):
    try:
        _run_case(case, ctx)
    except np.linalg.LinAlgError:
        ctx.skip("%s: singular block problem (LinAlgError)" % case["gen"])


def _run_case(case, ctx):
    import tensorly as tl
    from tensorly import decomposition as D
    from tensorly.decomposition import _cmtf_als
    from tensorly.cp_tensor import validate_cp_rank
    from tensorly.tucker_tensor import validate_tucker_rank
    from tensorly.tt_tensor import validate_tt_rank
    from tensorly.tr_tensor import validate_tr_rank

    g = case["gen"]
    rs = gen.rng(case["seed"], case["idx"], g)
    dt = "float32" if rs.rand() < 0.2 else "float64"
    eps = tol.eps_of(dt)
    ctx.count("checked/%s" % g)

    def viol(entry, clause, cls, what, wit=None):
        ctx.violation("C08:%s:%s:%s" % (entry, clause, cls), what, wit)

    if g in ("cp_norm", "cp_shape"):
        algo = gen.choice(rs, ["parafac", "nn_parafac", "nn_parafac_hals"] if g == "cp_norm" else ["parafac", "nn_parafac", "nn_parafac_hals", "constrained_parafac", "randomised_parafac"])
        cls = gen.choice(rs, ["nonneg-lowrank", "nonneg", "generic", "lowrank"]) if algo == "parafac" else gen.choice(rs, ["nonneg-lowrank", "nonneg"])
        data = decomp.make_data(rs, algo, dt, cls=cls, order=int(rs.randint(2, 5)))
        X = data["X"]
        spec = gen.choice(rs, ["int", "int", "int", "same", "fraction"]) if algo == "parafac" else "int"
        rank = int(rs.randint(1, 5)) if spec == "int" else ("same" if spec == "same" else float(gen.choice(rs, [0.3, 0.6, 1.0])))
        R = validate_cp_rank(X.shape, rank)
        if spec == "int" and R != rank:
            viol(algo, "validated-rank", spec, "validate_cp_rank(%r) = %r" % (rank, R))
            return
        if R < 1:
            ctx.skip("rank specification resolves to 0")
            return
        normalize = bool(rs.rand() < (0.8 if g == "cp_norm" else 0.3)) and algo in ("parafac", "nn_parafac", "nn_parafac_hals")
        path = gen.choice(rs, ["converged", "cap"])
        n_iter = int(gen.choice(rs, [0, 1, 2, 5])) if path == "cap" else 200
        tolv = 1e-100 if path == "cap" else float(gen.choice(rs, [1e-2, 1e-4, 1e-6]))
        opts = {"init": gen.choice(rs, ["svd", "random"])}
        warm = None
        if algo in ("parafac", "nn_parafac", "nn_parafac_hals", "constrained_parafac") and rs.rand() < 0.3:
            # warm start from a decomposition carrying non-unit weights (e.g. the output of a normalised run)
            opts.pop("init")
            warm = (rs.uniform(0.5, 4.0, R).astype(dt), [np.abs(rs.standard_normal((s_, R))).astype(dt) + 0.05 for s_ in X.shape])
        if normalize:
            opts["normalize_factors"] = True
        if algo == "constrained_parafac":
            opts["non_negative"] = True
        if algo == "randomised_parafac":
            opts.update(n_samples=20, max_stagnation=0)
        seed = int(rs.randint(0, 2 ** 31 - 1))
        desc = {"algo": algo, "data": data["cls"], "shape": list(X.shape), "rank_spec": rank, "R": R, "normalize": normalize, "path": path, "n_iter_max": n_iter, "tol": tolv, "dtype": dt, "init": opts.get("init", "user-with-weights")}
        desc["warm_start_with_weights"] = warm is not None
        r = decomp.run(algo, data, rank, n_iter, dict(opts), seed, tol=tolv, init=warm)
        nerr = len(r["errors"] or [])
        stopped_early = nerr < n_iter
        ctx.count("stop/%s" % ("converged" if stopped_early else "cap"))
        desc["stopped_early"] = stopped_early
        w, fs = r["decomp"]
        w = np.asarray(w)
        cls_k = ("converged" if stopped_early else "cap") + ("+warm" if warm is not None else "")
        if R > 1 and sum(s > 1 for s in X.shape) > 1:
            ctx.nontriv(desc)
        ctx.sample({"case": desc}, 3)
        ctx.count("clause/shapes")
        if len(fs) != X.ndim or any(tuple(np.shape(f)) != (X.shape[i], R) for i, f in enumerate(fs)) or w.shape != (R,):
            viol(algo, "shapes", "any", "factors %s weights %s for tensor %s rank %d" % ([np.shape(f) for f in fs], w.shape, X.shape, R), desc)
            return
        if normalize:
            ctx.count("clause/normalised-columns")
            for i, f in enumerate(fs):
                bad = [c for c in range(R) if not _unit_or_zero(f, w[c], eps, c)]
                if bad:
                    viol(algo, "normalised-columns", cls_k, "normalize_factors=True but mode-%d columns %s have norms %s (run %s after %d values)" % (
                        i, bad, np.linalg.norm(ref.hp(f), axis=0)[bad], "stopped by tol" if stopped_early else "hit the cap", nerr), desc)
                    return
        else:
            ctx.count("clause/unit-weights")
            if not np.all(w == 1):
                viol(algo, "unit-weights", cls_k, "normalize_factors=False but weights are %r" % w, desc)
        return

    if g == "tucker_norm":
        # "...unit norm with the scale carried by the weights (or core)": the two non-negative Tucker algorithms, both stopping paths
        algo = gen.choice(rs, ["nn_tucker", "nn_tucker_hals"])
        data = decomp.make_data(rs, algo, dt, cls=gen.choice(rs, ["nonneg-lowrank", "nonneg"]), order=int(rs.randint(2, 4)))
        X = data["X"]
        rank = [int(rs.randint(1, min(s_, 3) + 1)) for s_ in X.shape]
        path = gen.choice(rs, ["converged", "cap"])
        n_iter = int(gen.choice(rs, [0, 1, 2, 5])) if path == "cap" else (300 if algo == "nn_tucker" else 40)
        tolv = 1e-100 if path == "cap" else float(gen.choice(rs, [1e-2, 1e-3, 1e-4]))
        seed = int(rs.randint(0, 2 ** 31 - 1))
        opts = {"init": gen.choice(rs, ["svd", "random"]), "normalize_factors": True}
        desc = {"algo": algo, "shape": list(X.shape), "rank": rank, "path": path, "n_iter_max": n_iter, "tol": tolv, "dtype": dt, "init": opts["init"]}
        r = decomp.run(algo, data, rank, n_iter, dict(opts), seed, tol=tolv)
        nerr = len(r["errors"] or [])
        stopped_early = nerr < n_iter
        ctx.count("stop/%s" % ("converged" if stopped_early else "cap"))
        core, fs = r["decomp"]
        ctx.nontriv(desc)
        ctx.sample({"case": desc}, 2)
        ctx.count("clause/normalised-columns")
        ctx.count("clause/tucker-normalised-columns")
        for i, f in enumerate(fs):
            nr = np.linalg.norm(ref.hp(f), axis=0)
            bad = [c for c in range(nr.size) if not (abs(nr[c] - 1) <= 100 * eps or nr[c] == 0)]
            if bad:
                viol(algo, "normalised-columns", ("converged" if stopped_early else ("cap0" if n_iter == 0 else "cap")), "normalize_factors=True but mode-%d columns %s have norms %s (run %s after %d values)" % (
                    i, bad, nr[bad], "stopped by tol" if stopped_early else "hit the cap", nerr), desc)
                return
        return

    if g in ("tucker", "partial_tucker"):
        order = int(rs.randint(2, 5))
        data = decomp.make_data(rs, "tucker", dt, order=order)
        X = data["X"]
        cplx = bool(dt == "float64" and rs.rand() < 0.25)
        if cplx:
            X = X.astype(np.complex128) + 1j * rs.standard_normal(X.shape) * (float(np.max(np.abs(X))) or 1.0)
        init = gen.choice(rs, ["svd", "svd", "random"]) if not cplx else "svd"
        force_truncated = cplx   # symeig_svd forms M M^T and is only meaningful for real input
        n_iter = int(gen.choice(rs, [0, 1, 2, 5, 20]))
        tolv = float(gen.choice(rs, [1e-100, 1e-3]))
        svd = gen.choice(rs, ["truncated_svd", "truncated_svd", "symeig_svd"]) if dt == "float64" else "truncated_svd"
        if force_truncated:
            svd = "truncated_svd"
        seed = int(rs.randint(0, 2 ** 31 - 1))
        if g == "tucker":
            spec = gen.choice(rs, ["int", "list", "list", "same", "fraction"])
            if spec == "int":
                rank = int(rs.randint(1, 7))
                exp = [min(rank, s) for s in X.shape]
            elif spec == "list":
                rank = [int(rs.randint(1, s + 3)) for s in X.shape]
                exp = [min(r, s) for r, s in zip(rank, X.shape)]
            else:
                rank = "same" if spec == "same" else float(gen.choice(rs, [0.3, 0.5, 0.6]))
                if rs.rand() < 0.5:
                    # somebody sized another model of the same shape first, keeping some modes uncompressed: the documented
                    # ranks of this call depend on its own arguments only
                    nf_ = int(rs.randint(1, order))
                    validate_tucker_rank(tuple(X.shape), rank, fixed_modes=sorted(rs.choice(order, size=nf_, replace=False).tolist()))
                    ctx.count("clause/documented-rank-after-fixed-modes-query")
                own = _documented_rank(X.shape, 1.0 if rank == "same" else rank)
                if own is None:
                    ctx.skip("tucker: fractional rank lands on a rounding boundary")
                    return
                exp = [min(r, s) for r, s in zip(own, X.shape)]
            modes = list(range(order))
            fixed = None
            if spec in ("int", "list") and not cplx and order >= 3 and rs.rand() < 0.25:
                # some factors supplied and kept fixed, listed in any order: every returned factor sits at its own mode
                init = "user"
                user_fs = [gen.orth(rs, s_, r_, dt) for s_, r_ in zip(X.shape, exp)]
                user_core = gen.arr(rs, exp, dt)
                kf = int(rs.randint(2, order))
                fixed = rs.permutation(order)[:kf].tolist()
                out = D.tucker(X, rank, n_iter_max=n_iter, init=(user_core, [f.copy() for f in user_fs]), fixed_factors=list(fixed), tol=tolv, svd=svd, random_state=seed)
            elif spec in ("int", "list") and not cplx and rs.rand() < 0.2:
                # a user-supplied model as the starting point, none of it fixed: a non-orthonormal model of the data (exact in half of
                # the cases, e.g. a non-negative model brought to canonical form); after at least one sweep the result is HOOI output
                init = "user"
                n_iter = max(n_iter, 1)
                tolv = float(gen.choice(rs, [1e-100, 1e-3, 1e-8]))
                user_fs = [gen.arr(rs, (s_, r_), dt) + (0.5 if rs.rand() < 0.5 else 0.0) for s_, r_ in zip(X.shape, exp)]
                user_core = gen.arr(rs, exp, dt)
                exact = bool(rs.rand() < 0.5)
                if exact:
                    X = np.asarray(ref.tucker_dense(user_core, user_fs, list(range(order)))[0], dtype=dt)
                route = gen.choice(rs, ["function", "class", "tensor-object"])
                ctx.count("clause/user-start-%s-%s" % ("exact" if exact else "inexact", route))
                start = (user_core.copy(), [f.copy() for f in user_fs])
                if route == "class":
                    out = D.Tucker(rank=rank, n_iter_max=n_iter, init=start, tol=tolv, svd=svd, random_state=seed).fit_transform(X)
                elif route == "tensor-object":
                    from tensorly.tucker_tensor import TuckerTensor
                    out = D.tucker(X, rank, n_iter_max=n_iter, init=TuckerTensor(start), tol=tolv, svd=svd, random_state=seed)
                else:
                    out = D.tucker(X, rank, n_iter_max=n_iter, init=start, tol=tolv, svd=svd, random_state=seed)
            else:
                out = D.tucker(X, rank, n_iter_max=n_iter, init=init, tol=tolv, svd=svd, random_state=seed)
            core, fs = out
            rep_rank = tuple(out.rank)
            if fixed is not None:
                ctx.count("clause/fixed-factor-positions")
                for m_ in fixed:
                    if np.shape(fs[m_]) != np.shape(user_fs[m_]) or not np.array_equal(np.asarray(fs[m_]), user_fs[m_]):
                        viol(g, "fixed-factor-position", "unsorted" if fixed != sorted(fixed) else "sorted", "fixed_factors=%s: the factor returned for mode %d is not the supplied one (shapes %s)" % (
                            fixed, m_, [np.shape(f) for f in fs]), {"shape": list(X.shape), "rank_spec": rank, "fixed": fixed})
                        return
        else:
            fixed = None
            k = int(rs.randint(1, order + 1))
            modes = sorted(rs.choice(order, size=k, replace=False).tolist())
            spec = gen.choice(rs, ["list", "list", "list", "none", "int"])
            if spec == "none":      # documented: "the decomposition will preserve the original size" of the listed modes
                rank = None
                exp = [X.shape[m] for m in modes]
            elif spec == "int":     # one int for all listed modes
                rank = int(rs.randint(1, 6))
                exp = [min(rank, X.shape[m]) for m in modes]
            else:
                rank = [int(rs.randint(1, X.shape[m] + 2)) for m in modes]
                exp = [min(r, X.shape[m]) for r, m in zip(rank, modes)]
            pinit = init
            if not cplx and rs.rand() < 0.2:
                init = "user"
                n_iter = max(n_iter, 1)
                tolv = float(gen.choice(rs, [1e-100, 1e-3, 1e-8]))
                user_fs = [gen.arr(rs, (X.shape[m], r_), dt) + (0.5 if rs.rand() < 0.5 else 0.0) for m, r_ in zip(modes, exp)]
                cs_ = list(X.shape)
                for r_, m in zip(exp, modes):
                    cs_[m] = r_
                user_core = gen.arr(rs, cs_, dt)
                exact = bool(rs.rand() < 0.5)
                if exact:
                    X = np.asarray(ref.tucker_dense(user_core, user_fs, modes)[0], dtype=dt)
                ctx.count("clause/user-start-%s-partial" % ("exact" if exact else "inexact"))
                pinit = (user_core.copy(), [f.copy() for f in user_fs])
            (core, fs), _errs = D.partial_tucker(X, rank, modes=modes, n_iter_max=n_iter, init=pinit, tol=tolv, svd=svd, random_state=seed)
            rep_rank = None
        desc = {"gen": g, "shape": list(X.shape), "rank_spec": rank, "modes": modes, "init": init, "n_iter_max": n_iter, "tol": tolv, "svd": svd, "dtype": "complex128" if cplx else dt}
        if max(exp) > 1 and sum(s > 1 for s in X.shape) > 1:
            ctx.nontriv(desc)
        ctx.sample({"case": desc}, 3)
        ctx.count("clause/shapes")
        exp_core = list(X.shape)
        for r_, m in zip(exp, modes):
            exp_core[m] = r_
        # with random init and no sweep the (random) factors have the requested, unclamped ranks
        if init == "random" and n_iter == 0:
            ctx.skip("tucker: random initialisation returned untouched (n_iter_max=0)")
            return
        if [tuple(np.shape(f)) for f in fs] != [(X.shape[m], r_) for r_, m in zip(exp, modes)] or list(np.shape(core)) != exp_core:
            viol(g, "shapes", spec, "factors %s core %s; expected %s / %s" % ([np.shape(f) for f in fs], np.shape(core), [(X.shape[m], r_) for r_, m in zip(exp, modes)], exp_core), desc)
            return
        if rep_rank is not None and list(rep_rank) != exp:
            viol(g, "reported-rank", spec, "TuckerTensor.rank %s but factors have ranks %s" % (rep_rank, exp), desc)
        ctx.count("clause/orthonormal")
        # the sweeps compute their singular vectors with the default SVD whatever `svd` names: the initialisation's SVD (and the
        # recorded symeig_svd finding) decides the returned factors only when no sweep ran
        svd_eff = svd if n_iter == 0 else "truncated_svd"
        otol = (2e3 * np.sqrt(eps)) if svd_eff == "symeig_svd" else 500 * eps * max(X.shape)
        for f, m in zip(fs, modes):
            fh = ref.hp(f)
            dev = np.max(np.abs(fh.conj().T @ fh - np.eye(fh.shape[1])))
            if dev > otol:
                viol(g, "orthonormal", svd_eff, "mode-%d factor deviates from orthonormal by %.3g (tol %.3g)" % (m, dev, otol), desc)
                return
        if g == "tucker" and fixed is not None and n_iter == 0:
            return    # no sweep: the supplied core is handed back as it is (C14's zero-budget clause), it need not be a projection
        ctx.count("clause/core-projection")
        want, wabs, nt = ref.tucker_dense(X, [np.conj(ref.hp(f)).T for f in fs], modes)
        ok, worst = tol.formula_close(core, want, wabs, eps, nt)
        if not ok:
            viol(g, "core-projection", "complex" if cplx else "any", "core differs from the projection of the data onto the (conjugated) factors (err/bound %.3g)" % worst, desc)
        return

    if g in ("tt", "ttm"):
        if g == "tt":
            order = int(rs.randint(2, 6))
            shp = gen.shape(rs, order, 1, 5 if order < 5 else 3)
            X = gen.arr(rs, shp, dt, gen.choice(rs, ["gauss", "int"]))
            if rs.rand() < 0.3:
                X = ref.cp_dense(None, [rs.standard_normal((s, 2)) for s in shp])[0].astype(dt)
            eff = shp
        else:
            n = int(rs.randint(1, 4))
            left, right = gen.shape(rs, n, 1, 3), gen.shape(rs, n, 1, 3)
            X = gen.arr(rs, left + right, dt, "gauss")
            eff = [a * b for a, b in zip(left, right)]
            order = n
        spec = gen.choice(rs, ["int", "list", "list", "same", "fraction"])
        if spec == "int":
            rank = int(rs.randint(1, 6))
            req = [1] + [rank] * (order - 1) + [1]
        elif spec == "list":
            req = [1] + [int(rs.randint(1, 8)) for _ in range(order - 1)] + [1]
            rank = list(req)
        else:
            rank = "same" if spec == "same" else float(gen.choice(rs, [0.3, 0.6]))
            req = list(validate_tt_rank(tuple(eff), rank)) if order > 1 else [1, 1]
        exp = [1]
        for k in range(order - 1):
            exp.append(int(min(exp[k] * eff[k], int(np.prod(eff[k + 1:])), req[k + 1])))
        exp.append(1)
        svd = gen.choice(rs, ["truncated_svd", "truncated_svd", "symeig_svd"]) if dt == "float64" else "truncated_svd"
        desc = {"gen": g, "shape": list(X.shape), "rank_spec": rank, "expected_ranks": exp, "svd": svd, "dtype": dt}
        if g == "ttm" and order == 1:
            exp = [1, 1]
        via = "function"
        if spec == "list" and rs.rand() < 0.35:
            # history: the caller's rank list (or one estimator holding it) was used on a smaller tensor first, where ranks got clipped;
            # this call's ranks follow from its own tensor and the list as the caller wrote it
            small_shape = [max(1, s_ // 2) for s_ in X.shape]
            Xs_ = gen.arr(rs, small_shape, dt, "gauss")
            via = gen.choice(rs, ["function-list-reused", "estimator-refit"])
            ctx.count("tt_rank_list_history/" + via)
            if via == "estimator-refit":
                est = (D.TensorTrain if g == "tt" else D.TensorTrainMatrix)(rank=rank, svd=svd)
                est.fit_transform(Xs_)
                out = est.fit_transform(X)
            else:
                (D.tensor_train if g == "tt" else D.tensor_train_matrix)(Xs_, rank, svd=svd)
                out = D.tensor_train(X, rank, svd=svd) if g == "tt" else D.tensor_train_matrix(X, rank, svd=svd)
            if list(rank) != req:
                viol(g, "caller-rank-list-edited", via, "the rank list the caller passed reads %s after the calls (was %s)" % (list(rank), req), desc)
                return
            spec = "list+" + via
        else:
            out = D.tensor_train(X, rank, svd=svd) if g == "tt" else D.tensor_train_matrix(X, rank, svd=svd)
        cores = list(out.factors)
        if max(exp) > 1:
            ctx.nontriv(desc)
        ctx.sample({"case": desc}, 2)
        ctx.count("clause/shapes")
        got_r = [c.shape[0] for c in cores] + [cores[-1].shape[-1]]
        if g == "tt":
            shapes_ok = [c.shape[1] for c in cores] == shp and all(c.ndim == 3 for c in cores)
        else:
            shapes_ok = [list(c.shape[1:3]) for c in cores] == [[a, b] for a, b in zip(left, right)] and all(c.ndim == 4 for c in cores)
        if not shapes_ok or got_r != exp or list(out.rank) != exp or got_r[0] != 1 or got_r[-1] != 1:
            viol(g, "shapes-ranks", spec, "cores have ranks %s (reported %s), expected %s; core shapes %s" % (got_r, list(out.rank), exp, [c.shape for c in cores]), desc)
            return
        if g == "tt" or order > 1:
            ctx.count("clause/left-orthogonal")
            otol = (2e3 * np.sqrt(eps)) if svd == "symeig_svd" else 500 * eps * max(max(eff), 2)
            for k, c in enumerate(cores[:-1]):
                Q = ref.hp(c).reshape(-1, c.shape[-1])
                dev = np.max(np.abs(Q.T @ Q - np.eye(Q.shape[1])))
                # symeig beyond numerical rank is the C05 finding; only assert where the unfolding has full numerical rank
                if dev > otol:
                    if svd == "symeig_svd":
                        ctx.count("symeig_left_orthogonality_not_asserted")
                        continue
                    viol(g, "left-orthogonal", svd, "core %d is not left-orthogonal (dev %.3g, tol %.3g)" % (k, dev, otol), desc)
                    return
        return

    if g == "tr":
        order = int(rs.randint(2, 6))
        shp = gen.shape(rs, order, 2, 5 if order < 5 else 3)
        X = gen.arr(rs, shp, dt, "gauss")
        mode = int(rs.randint(order))
        spec = gen.choice(rs, ["int", "list", "list"])
        if spec == "int":
            rank = int(rs.randint(1, 3))
            req = [rank] * (order + 1)
        else:
            req = [int(rs.randint(1, 4)) for _ in range(order)]
            req.append(req[0])
            rank = list(req)
        svd = "truncated_svd"
        desc = {"gen": g, "shape": shp, "rank_spec": rank, "mode": mode, "dtype": dt}
        # expected: rotate so that `mode` comes first
        rot = req[mode:-1] + req[:mode] + [req[mode]]
        rshp = shp[mode:] + shp[:mode]
        n_row, n_col = rshp[0], int(np.prod(rshp[1:]))
        try:
            out = D.tensor_ring(X, rank, mode=mode, svd=svd)
        except ValueError as e:
            if rot[0] * rot[1] > min(n_row, n_col):
                ctx.count("tr_documented_rejection")
                return
            viol("tr", "raises-ValueError", "mode%d" % min(mode, 2), "tensor_ring raised %s although rank[mode]*rank[mode+1]=%d fits the first unfolding %dx%d" % (str(e)[:120], rot[0] * rot[1], n_row, n_col), desc)
            return
        if rot[0] * rot[1] > min(n_row, n_col):
            viol("tr", "oversized-first-ranks-accepted", "mode%d" % min(mode, 2), "tensor_ring accepted rank[mode]*rank[mode+1]=%d > min(%d,%d)" % (rot[0] * rot[1], n_row, n_col), desc)
            return
        exp = [rot[0], rot[1]]
        for k in range(1, order - 1):
            exp.append(int(min(exp[k] * rshp[k], int(np.prod(rshp[k + 1:])) * rot[0], rot[k + 1])))
        exp.append(rot[0])
        # rotate back
        back = exp[:-1]
        back = back[-mode:] + back[:-mode] if mode else back
        back = back + [back[0]]
        cores = list(out.factors)
        got_r = [c.shape[0] for c in cores] + [cores[-1].shape[2]]
        if max(got_r) > 1:
            ctx.nontriv(desc)
        ctx.sample({"case": desc, "expected_ranks": back}, 2)
        ctx.count("clause/shapes")
        if [c.shape[1] for c in cores] != shp or got_r[0] != got_r[-1] or list(out.rank) != got_r:
            viol("tr", "shapes", "mode%d" % min(mode, 2), "core shapes %s / reported rank %s" % ([c.shape for c in cores], list(out.rank)), desc)
            return
        if got_r != back:
            viol("tr", "ranks", "mode%d" % min(mode, 2), "returned ranks %s, expected %s for requested %s and start mode %d" % (got_r, back, req, mode), desc)
        return

    if g == "tr_als":
        data = decomp.make_data(rs, "tr_als", dt, order=int(rs.randint(3, 5)))
        X = data["X"]
        spec = gen.choice(rs, ["int", "list"])
        if spec == "int":
            rank = int(rs.randint(1, 3))
            exp = [rank] * (X.ndim + 1)
        else:
            exp = [int(rs.randint(1, 3)) for _ in range(X.ndim)]
            exp.append(exp[0])
            rank = list(exp)
        out = D.tensor_ring_als(X, rank, n_iter_max=int(gen.choice(rs, [0, 1, 3])), tol=float(gen.choice(rs, [0.0, 1e-3])), random_state=int(rs.randint(0, 2 ** 31 - 1)),
                                ls_solve=gen.choice(rs, ["lstsq", "normal_eq"]))
        cores = list(out.factors)
        desc = {"gen": g, "shape": list(X.shape), "rank_spec": rank, "dtype": dt}
        got_r = [c.shape[0] for c in cores] + [cores[-1].shape[2]]
        ctx.count("clause/shapes")
        if max(exp) > 1:
            ctx.nontriv(desc)
        if got_r != exp or [c.shape[1] for c in cores] != list(X.shape):
            viol("tr_als", "shapes", spec, "ranks %s (expected %s), core shapes %s" % (got_r, exp, [c.shape for c in cores]), desc)
        return

    if g == "parafac2":
        data = decomp.make_data(rs, "parafac2", dt, cls=gen.choice(rs, ["lowrank", "generic", "nonneg-lowrank", "nonneg"]))
        sl = data["slices"]
        rank = decomp.pick_rank(rs, "parafac2", data)
        normalize = bool(rs.rand() < 0.5)
        path = gen.choice(rs, ["converged", "cap"])
        n_iter = int(gen.choice(rs, [0, 1, 2, 8])) if path == "cap" else 300
        tolv = 1e-100 if path == "cap" else float(gen.choice(rs, [1e-2, 1e-4]))
        opts = {"init": gen.choice(rs, ["random", "svd"]), "linesearch": bool(rs.rand() < 0.5), "normalize_factors": normalize}
        if rs.rand() < 0.3:
            opts["nn_modes"] = [0, 2]
        seed = int(rs.randint(0, 2 ** 31 - 1))
        warm = None
        if rs.rand() < 0.3 and "nn_modes" not in opts:
            opts.pop("init")
            I_, K_ = len(sl), sl[0].shape[1]
            warm = (rs.uniform(0.5, 4.0, rank).astype(dt), [rs.uniform(0.5, 2, (I_, rank)).astype(dt), (rs.standard_normal((rank, rank)) + 2 * np.eye(rank)).astype(dt),
                                                          rs.standard_normal((K_, rank)).astype(dt)], [gen.orth(rs, s_.shape[0], rank, dt) for s_ in sl])
        desc = {"gen": g, "shapes": data["shape"], "rank": rank, "path": path, "n_iter_max": n_iter, "tol": tolv, "opts": opts, "dtype": dt, "data": data["cls"],
                "warm_start_with_weights": warm is not None}
        r = decomp.run("parafac2", data, rank, n_iter, dict(opts), seed, tol=tolv, init=warm)
        w, (A, B, C), P = r["decomp"]
        stopped_early = len(r["errors"]) < n_iter
        ctx.count("stop/%s" % ("converged" if stopped_early else "cap"))
        cls_k = ("converged" if stopped_early else "cap") + ("+warm" if warm is not None else "")
        if warm is not None and n_iter == 0:
            ctx.skip("parafac2: warm start returned untouched by n_iter_max=0 keeps its own weights")
            return
        if rank > 1:
            ctx.nontriv(desc)
        ctx.sample({"case": desc}, 2)
        I, K = len(sl), sl[0].shape[1]
        ctx.count("clause/shapes")
        if np.shape(A) != (I, rank) or np.shape(B) != (rank, rank) or np.shape(C) != (K, rank) or len(P) != I or any(np.shape(p) != (s.shape[0], rank) for p, s in zip(P, sl)):
            viol("parafac2", "shapes", "any", "A %s B %s C %s, %d projections %s for %d slices %s" % (np.shape(A), np.shape(B), np.shape(C), len(P), [np.shape(p) for p in P], I, data["shape"]), desc)
            return
        ctx.count("clause/projections")
        cross = []
        for i, p in enumerate(P):
            ph = ref.hp(p)
            dev = np.max(np.abs(ph.T @ ph - np.eye(rank)))
            if dev > 500 * eps * max(p.shape):
                viol("parafac2", "orthonormal-projections", "any", "projection %d deviates from orthonormal by %.3g" % (i, dev), desc)
                return
            Bi = ph @ ref.hp(B)
            cross.append(Bi.T @ Bi)
        sc = np.max(np.abs(cross[0])) + 1e-300
        if any(np.max(np.abs(c - cross[0])) > 2e3 * eps * sc * max(max(p.shape) for p in P) for c in cross[1:]):
            viol("parafac2", "shared-cross-product", "any", "evolving factors B_i = P_i B do not share one cross product", desc)
        wv = np.asarray(w)
        if normalize:
            ctx.count("clause/normalised-columns")
            for nm, f in (("A", A), ("B", B), ("C", C)):
                bad = [c for c in range(rank) if not _unit_or_zero(f, wv[c], eps, c)]
                if bad:
                    viol("parafac2", "normalised-columns", cls_k, "normalize_factors=True but columns %s of %s have norms %s" % (bad, nm, np.linalg.norm(ref.hp(f), axis=0)[bad]), desc)
                    return
            if path == "cap" and n_iter >= 1:
                # "...with the scale carried by the weights": normalising moves scale around, it does not remove it. The twin run
                # without the option (same start, same budget) represents the same slices up to the inexactness of the inner solvers.
                ctx.count("clause/scale-carried-by-weights")
                r2 = decomp.run("parafac2", data, rank, n_iter, dict(opts, normalize_factors=False), seed, tol=tolv, init=warm)
                d_n = decomp.dense("parafac2", decomp.snapshot(r["decomp"]))
                d_p = decomp.dense("parafac2", decomp.snapshot(r2["decomp"]))
                num = float(np.sqrt(sum(ref.frob_sq(a_ - b_) for a_, b_ in zip(d_n, d_p))))
                den = float(np.sqrt(sum(ref.frob_sq(b_) for b_ in d_p))) + 1e-300
                if not np.isfinite(num) or num > 0.3 * den + 1e3 * eps * den:
                    viol("parafac2", "scale-carried-by-weights", "nn_modes" if "nn_modes" in opts else "plain", "the normalised run represents other slices than the same run without normalisation "
                         "(relative difference %.3g): the scale taken out of the columns is not in the weights" % (num / den), desc)
                    return
        else:
            ctx.count("clause/unit-weights")
            if not np.all(wv == 1):
                viol("parafac2", "unit-weights", cls_k, "normalize_factors=False but weights are %r" % wv, desc)
        return

    if g == "cmtf":
        data = decomp.make_data(rs, "cmtf", dt, cls=gen.choice(rs, ["lowrank", "generic"]))
        X, M = data["X"], data["M"]
        rank = int(rs.randint(1, min(3, min(X.shape), M.shape[1]) + 1))
        normalize = bool(rs.rand() < 0.6)
        path = gen.choice(rs, ["converged", "cap"])
        n_iter = int(gen.choice(rs, [1, 2, 5])) if path == "cap" else 200
        tolv = 1e-100 if path == "cap" else float(gen.choice(rs, [1e-2, 1e-5]))
        import warnings
        with warnings.catch_warnings():
            warnings.simplefilter("ignore")
            tcp, mcp, errs = _cmtf_als.coupled_matrix_tensor_3d_factorization(X, M, rank, n_iter_max=n_iter, tol=tolv, normalize_factors=normalize)
        desc = {"gen": g, "shapes": data["shape"], "rank": rank, "normalize": normalize, "path": path, "n_iter_max": n_iter, "tol": tolv, "dtype": dt}
        stopped_early = len(errs) < n_iter
        ctx.count("stop/%s" % ("converged" if stopped_early else "cap"))
        cls_k = "converged" if stopped_early else "cap"
        if rank > 1:
            ctx.nontriv(desc)
        ctx.count("clause/shapes")
        if [np.shape(f) for f in tcp[1]] != [(s, rank) for s in X.shape] or [np.shape(f) for f in mcp[1]] != [(M.shape[0], rank), (M.shape[1], rank)]:
            viol("cmtf", "shapes", "any", "tensor factors %s, matrix factors %s" % ([np.shape(f) for f in tcp[1]], [np.shape(f) for f in mcp[1]]), desc)
            return
        if normalize and rank <= min(min(X.shape), M.shape[1]):
            # the SVD initialisation is deterministic here: the plain run is the same computation without the final normalisation
            with warnings.catch_warnings():
                warnings.simplefilter("ignore")
                tcp0, mcp0, _e0 = _cmtf_als.coupled_matrix_tensor_3d_factorization(X, M, rank, n_iter_max=n_iter, tol=tolv, normalize_factors=False)
            ctx.count("clause/normalisation-preserves-tensor")
            for nm, a, b in (("tensor", tcp, tcp0), ("matrix", mcp, mcp0)):
                da, db = ref.cp_dense(a[0], [np.asarray(f) for f in a[1]])[0], ref.cp_dense(b[0], [np.asarray(f) for f in b[1]])[0]
                sc = float(np.max(np.abs(db))) + 1e-300
                if np.max(np.abs(da - db)) > 1e4 * eps * sc:
                    viol("cmtf", "normalisation-preserves-%s" % nm, cls_k, "with normalize_factors=True the %s part represents a different array than without (max diff %.3g, scale %.3g)" % (
                        nm, float(np.max(np.abs(da - db))), sc), desc)
                    return
        for nm, (w, fs) in (("tensor", tcp), ("matrix", mcp)):
            wv = np.asarray(w)
            if normalize:
                ctx.count("clause/normalised-columns")
                for i, f in enumerate(fs):
                    bad = [c for c in range(rank) if not _unit_or_zero(f, wv[c], eps, c)]
                    if bad:
                        viol("cmtf", "normalised-columns", cls_k, "%s part: columns %s of factor %d have norms %s" % (nm, bad, i, np.linalg.norm(ref.hp(f), axis=0)[bad]), desc)
                        return
            else:
                ctx.count("clause/unit-weights")
                if not np.all(wv == 1):
                    viol("cmtf", "unit-weights", cls_k, "%s part: normalize_factors=False but weights are %r" % (nm, wv), desc)
        return
    raise ValueError(g)
