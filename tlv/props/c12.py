"""C12 — proximal / projection operators return the exact minimiser of their prox problem.

Every case calls one real operator on a generated input and judges the returned point with an
independent reference (closed forms, sort-based simplex + KKT certificate, PAVA, exact O(n^2) unimodal
regression, numpy SVD), plus idempotence for projections, firm non-expansiveness for convex operators and a
random feasible-competitor search.
"""
import numpy as np

from ..core import gen, ref, tol

ID = "C12"
RULE = ("seeded vectors/matrices (1-8 x 1-4; signed, all-negative, all-positive, ties, zeros, inside/outside the set, scales "
        "1e-3..1e3, float32/64) per operator and parameter; non-trivial = the operator changes its input; distinct = distinct "
        "(operator, shape, class, parameter, dtype, seed-free content hash)")
ASSUMPTIONS = ["references: closed forms, PAVA, exact quadratic-time unimodal regression, numpy.linalg.svd",
               "max-normalisation is not a prox: only feasibility and idempotence are asserted; all-zero input excluded there",
               "hard/normalised sparsity: any tie-break accepted (distances compared, not points)"]
OPS = ["non_negative", "l1", "l2", "l2_square", "smoothness", "simplex", "soft_sparsity", "monotone", "unimodal",
       "hard_sparsity", "normalized_sparsity", "normalize", "svt", "procrustes"]
CONVEX = {"non_negative", "l1", "l2", "l2_square", "smoothness", "simplex", "soft_sparsity", "monotone", "svt"}
PROJECTION = {"non_negative", "simplex", "soft_sparsity", "monotone", "unimodal", "hard_sparsity", "normalized_sparsity", "normalize", "procrustes"}


def plan(tier, seed):
    n = 28000 if tier == "quick" else 420000
    return [{"gen": OPS[i % len(OPS)], "idx": i, "seed": seed} for i in range(n)]


def floors(tier):
    f = {"checked/%s" % o: 300 for o in OPS}
    f.update({"clause/optimal": 3000, "clause/feasible": 2000, "clause/idempotent": 1500, "clause/firmly-nonexpansive": 1500, "clause/competitor": 3000})
    return f


def bounds(tier):
    return {"rows": "1-8", "cols": "1-4 (or 1-D)", "scales": "1e-3..1e3", "dtypes": ["float64", "float32"]}


# ---------------------------------------------------------------------------------------------
# references
def pava(y):
    """isotonic (non-decreasing) least-squares regression, pool adjacent violators"""
    y = np.asarray(y, dtype=float)
    vals, wts = [], []
    for v in y:
        vals.append(v)
        wts.append(1.0)
        while len(vals) > 1 and vals[-2] > vals[-1]:
            w = wts[-2] + wts[-1]
            v2 = (vals[-2] * wts[-2] + vals[-1] * wts[-1]) / w
            vals[-2:] = [v2]
            wts[-2:] = [w]
    out = []
    for v, w in zip(vals, wts):
        out.extend([v] * int(round(w)))
    return np.array(out)


def unimodal_ref(y):
    """exact unimodal LS regression: best over peak position p of [isotonic inc on y[:p+1] with cap..] — computed exactly as
    min over split k of (increasing fit on y[:k]) + (decreasing fit on y[k:]) which is unimodal and optimal among unimodal vectors"""
    y = np.asarray(y, dtype=float)
    n = len(y)
    best, bestx = None, None
    for k in range(n + 1):
        left = pava(y[:k]) if k else np.array([])
        right = -pava(-y[k:]) if k < n else np.array([])
        x = np.concatenate([left, right])
        d = float(np.sum((x - y) ** 2))
        # concatenation of increasing then decreasing is unimodal only if it has a single peak: always true (inc then dec)
        if best is None or d < best - 0.0:
            best, bestx = d, x
    return bestx, best


def simplex_ref(v, z):
    v = np.asarray(v, dtype=float)
    u = np.sort(v)[::-1]
    css = np.cumsum(u) - z
    ks = np.arange(1, len(v) + 1)
    cond = u - css / ks > 0
    if not np.any(cond):          # z == 0: the set is the single point 0
        return np.zeros_like(v)
    rho = ks[cond][-1]
    theta = css[cond][-1] / rho
    return np.maximum(v - theta, 0)


def is_unimodal(x, slack=0.0):
    x = np.asarray(x, dtype=float)
    if len(x) <= 2:
        return True
    p = int(np.argmax(x))
    return bool(np.all(np.diff(x[:p + 1]) >= -slack) and np.all(np.diff(x[p:]) <= slack))


def make_input(rs, dt, op):
    rows = int(rs.randint(1, 9))
    cols = int(rs.randint(1, 5))
    oned = bool(rs.rand() < 0.35)
    cls = gen.choice(rs, ["signed", "signed", "allneg", "allpos", "ties", "zeros", "int", "sorted"])
    shape = (rows,) if oned else (rows, cols)
    if cls == "signed":
        v = rs.standard_normal(shape)
    elif cls == "allneg":
        v = -rs.uniform(0.1, 2, shape)
    elif cls == "allpos":
        v = rs.uniform(0.1, 2, shape)
    elif cls == "ties":
        v = rs.choice([-1.0, 0.5, 0.5, 2.0, -1.0], size=shape)
    elif cls == "zeros":
        v = rs.standard_normal(shape) * (rs.uniform(size=shape) < 0.5)
    elif cls == "int":
        v = rs.randint(-3, 4, size=shape).astype(float)
    else:
        v = np.sort(rs.standard_normal(shape), axis=0)
        if rs.rand() < 0.5:
            v = v[::-1].copy()
    scale = 10.0 ** gen.choice(rs, [0, 0, 0, -3, 3, 1])
    return (v * scale).astype(dt), cls, scale


def run_case(case, ctx):
    import tensorly as tl
    from tensorly.tenalg import proximal as P

    op = case["gen"]
    rs = gen.rng(case["seed"], case["idx"], op)
    dt = "float32" if rs.rand() < 0.2 else "float64"
    eps = tol.eps_of(dt)
    v, cls, scale = make_input(rs, dt, op)
    if op in ("svt", "procrustes") and v.ndim == 1:
        v = v.reshape(-1, 1)
    if op in ("svt", "procrustes") and rs.rand() < 0.25:
        # unfoldings: much wider than tall (or the other way round)
        r_, c_ = int(rs.randint(1, 4)), int(rs.randint(7, 21))
        v = (rs.standard_normal((r_, c_) if rs.rand() < 0.7 else (c_, r_)) * scale).astype(dt)
        cls = "signed"
    if op == "unimodal" and rs.rand() < 0.25:
        # columns whose best unimodal fit peaks at the very first (or last) row although the other end is higher: a slow decay
        # followed by a single late spike, and its mirror image
        n_ = int(rs.randint(4, 9))
        c_ = 1 if v.ndim == 1 else v.shape[1]
        base = np.sort(rs.uniform(5, 10, (n_, c_)), axis=0)[::-1].copy()
        base[-2] = rs.uniform(-1, 1, c_)
        base[-1] = base[0] + rs.uniform(0.1, 1.0, c_)
        if rs.rand() < 0.4:
            base = base[::-1].copy()
        v = (base[:, 0] if v.ndim == 1 else base)
        v = (v * scale).astype(dt)
        cls = "edge-peak"
    via_dispatch = bool(rs.rand() < 0.5)
    nrm = float(np.max(np.abs(v))) if v.size else 0.0
    size = v.size
    atol = 2e3 * eps * (1 + nrm) * max(size, 1)
    ctx.count("checked/%s" % op)
    desc = {"op": op, "shape": list(v.shape), "class": cls, "scale": scale, "dtype": dt, "dispatch": via_dispatch}

    def cols(a):
        a = np.asarray(a, dtype=float)
        return [a] if a.ndim == 1 else [a[:, j] for j in range(a.shape[1])]

    # ---- operator + parameter + reference + objective/feasibility ------------------------------------------
    param = None
    feas = lambda x: (True, "")
    obj = None          # penalty(x) + 1/2||x-v||^2  (None -> pure projection: distance only)
    refx = None
    vh = ref.hp(v)
    if op == "non_negative":
        f = (lambda a: P.proximal_operator(a, non_negative=True))
        refx = np.maximum(vh, 0)
        feas = lambda x: (bool(np.all(x >= 0)), "negative entry %r" % (float(np.min(x)) if x.size else None))
        comp = lambda r: np.abs(r.standard_normal(v.shape)) * (nrm + 1)
        desc["class"] = cls = "max-negative" if (v.size and np.max(vh) < 0) else "has-non-negative-entry"
    elif op == "l1":
        param = float(gen.choice(rs, [0.0, 0.1, 1.0, 10.0]) * scale)
        f = (lambda a: P.proximal_operator(a, l1_reg=param)) if via_dispatch and param else (lambda a: P.soft_thresholding(a, param))
        refx = np.sign(vh) * np.maximum(np.abs(vh) - param, 0)
        obj = lambda x: param * np.sum(np.abs(x)) + 0.5 * np.sum((x - vh) ** 2)
        comp = lambda r: refx + r.standard_normal(v.shape) * (nrm + 1) * 0.1
        if rs.rand() < 0.2 and dt == "float64":
            # the same operator on complex data (the sparse part of a complex robust PCA): the modulus shrinks, the phase stays
            z = vh + 1j * rs.standard_normal(v.shape) * scale * gen.choice(rs, [0.0, 1.0, 1.0])
            z = z.astype(np.complex128)
            got = np.asarray(f(z.copy()))
            mod = np.abs(z)
            want = np.where(mod > 0, z / np.where(mod > 0, mod, 1), 0) * np.maximum(mod - param, 0)
            ctx.count("l1_complex_input")
            if got.shape != want.shape or not np.allclose(got, want, rtol=1e-12, atol=1e-12 * (float(np.max(mod, initial=0)) + param)):
                ctx.violation("C12:l1:optimal:complex", "soft thresholding of complex input is not the minimiser of t*||x||_1 + 1/2||x-v||^2 (modulus shrunk, phase kept): max dev %.3g" % (
                    float(np.max(np.abs(got - want))) if got.shape == want.shape else float("nan")), {"desc": desc, "v": z, "out": got})
                return
    elif op == "l2":
        param = float(gen.choice(rs, [0.0, 0.1, 1.0, 10.0]) * scale)
        f = (lambda a: P.proximal_operator(a, l2_reg=param)) if via_dispatch and param else (lambda a: P.l2_prox(a, param))
        nv = np.linalg.norm(vh)
        refx = vh * (1 - param / max(nv, param)) if max(nv, param) > 0 else vh * 0
        obj = lambda x: param * np.linalg.norm(x) + 0.5 * np.sum((x - vh) ** 2)
        comp = lambda r: refx + r.standard_normal(v.shape) * (nrm + 1) * 0.1
        if nv == 0 and param == 0:
            desc["class"] = cls = "zero-input-zero-parameter"
    elif op == "l2_square":
        param = float(gen.choice(rs, [0.0, 0.1, 1.0, 10.0]))
        f = (lambda a: P.proximal_operator(a, l2_square_reg=param)) if via_dispatch and param else (lambda a: P.l2_square_prox(a, param))
        refx = vh / (1 + 2 * param)
        obj = lambda x: param * np.sum(x ** 2) + 0.5 * np.sum((x - vh) ** 2)
        comp = lambda r: refx + r.standard_normal(v.shape) * (nrm + 1) * 0.1
    elif op == "smoothness":
        param = float(gen.choice(rs, [0.0, 0.1, 1.0, 10.0]))
        f = (lambda a: P.proximal_operator(a, smoothness=param)) if via_dispatch and param else (lambda a: P.smoothness_prox(a, param))
        n0 = v.shape[0]
        Lm = 2 * np.eye(n0) - np.eye(n0, k=1) - np.eye(n0, k=-1)
        refx = np.linalg.solve(np.eye(n0) + param * Lm, vh)
        obj = lambda x: 0.5 * param * np.sum(x * (Lm @ x)) + 0.5 * np.sum((x - vh) ** 2)
        comp = lambda r: refx + r.standard_normal(v.shape) * (nrm + 1) * 0.1
    elif op in ("simplex", "soft_sparsity"):
        param = float(gen.choice(rs, [0.5, 1.0, 3.0, 0.01]) * (scale if rs.rand() < 0.5 else 1.0))
        if rs.rand() < 0.08:
            # the degenerate radius: the simplex / l1 ball of size 0 is the single point 0 (only through the operators themselves:
            # in proximal_operator a 0 means "this constraint is not requested")
            param, via_dispatch = 0.0, False
            desc["class"] = cls = cls + "+radius0"
        if op == "simplex":
            f = (lambda a: P.proximal_operator(a, simplex=param)) if via_dispatch else (lambda a: P.simplex_prox(a, param))
            refx = np.stack([simplex_ref(c, param) for c in cols(vh)], axis=-1) if vh.ndim == 2 else simplex_ref(vh, param)

            def feas(x):
                for c in cols(x):
                    if np.any(c < 0):
                        return False, "negative entry %r" % float(c.min())
                    if abs(np.sum(c) - param) > 50 * eps * (param + nrm) * len(c) + atol * 0:
                        return False, "column sums to %r, not %r" % (float(np.sum(c)), param)
                return True, ""

            def comp(r):
                w = r.dirichlet(np.ones(v.shape[0]), size=(v.shape[1] if v.ndim == 2 else 1)).T * param
                return w if v.ndim == 2 else w[:, 0]
        else:
            f = (lambda a: P.proximal_operator(a, soft_sparsity=param)) if via_dispatch else (lambda a: P.soft_sparsity_prox(a, param))

            def l1ref(c):
                return c.copy() if np.sum(np.abs(c)) <= param else np.sign(c) * simplex_ref(np.abs(c), param)
            refx = np.stack([l1ref(c) for c in cols(vh)], axis=-1) if vh.ndim == 2 else l1ref(vh)
            inside_cols = [bool(np.sum(np.abs(c)) <= param) for c in cols(vh)]
            # the class names the mechanism: "inside-ball" as soon as one column already lies in the ball
            desc["class"] = cls = "inside-ball" if any(inside_cols) else "outside-ball"

            def feas(x):
                for c in cols(x):
                    if np.sum(np.abs(c)) > param * (1 + 50 * eps * len(c)) + 50 * eps * nrm:
                        return False, "column l1 norm %r exceeds %r" % (float(np.sum(np.abs(c))), param)
                return True, ""

            def comp(r):
                w = r.dirichlet(np.ones(v.shape[0]), size=(v.shape[1] if v.ndim == 2 else 1)).T * param * r.uniform(0, 1)
                w = w * r.choice([-1, 1], size=w.shape)
                return w if v.ndim == 2 else w[:, 0]
    elif op in ("monotone", "unimodal"):
        dec = bool(rs.rand() < 0.5) if op == "monotone" else False
        desc["decreasing"] = dec
        if op == "monotone":
            f = (lambda a: P.proximal_operator(a, monotonicity=True)) if (via_dispatch and not dec) else (lambda a: P.monotonicity_prox(a, decreasing=dec))
            rc = [(-pava(-c) if dec else pava(c)) for c in cols(vh)]

            def feas(x):
                for c in cols(x):
                    d = np.diff(c)
                    if (np.any(d > 0) if dec else np.any(d < 0)):
                        return False, "column not monotone: %r" % c
                return True, ""

            def comp(r):
                w = np.sort(r.standard_normal((v.shape[0], len(rc))) * (nrm + 1), axis=0)
                return w[::-1] if dec else w
        else:
            f = (lambda a: P.proximal_operator(a, unimodality=True)) if via_dispatch else (lambda a: P.unimodality_prox(a))
            rc = [unimodal_ref(c)[0] for c in cols(vh)]

            def feas(x):
                for c in cols(x):
                    if not is_unimodal(c):
                        return False, "column not unimodal: %r" % c
                return True, ""

            def comp(r):
                w = np.sort(r.standard_normal((v.shape[0], len(rc))) * (nrm + 1), axis=0)
                k = r.randint(0, v.shape[0] + 1)
                return np.concatenate([w[:k], w[k:][::-1]], axis=0)
        refx = np.stack(rc, axis=-1)  # these operators always return 2-D (rows, cols)
        if np.all(vh < 0) or cls == "allneg":
            desc["class"] = cls = "allneg"
        elif np.any(vh < 0):
            desc["class"] = cls = "has-negative"
        else:
            desc["class"] = cls = "non-negative-input"
    elif op in ("hard_sparsity", "normalized_sparsity"):
        k = int(rs.randint(1, size + 2))
        param = k
        flat = vh.ravel()
        if op == "hard_sparsity":
            f = (lambda a: P.proximal_operator(a, hard_sparsity=k)) if via_dispatch else (lambda a: P.hard_thresholding(a, k))
            best_d = float(np.sum(np.sort(flat ** 2)[:max(size - k, 0)]))

            def feas(x):
                return (int(np.count_nonzero(x)) <= k), "%d non-zeros > %d" % (int(np.count_nonzero(x)), k)

            def comp(r):
                w = vh.copy().ravel()
                idx = r.permutation(size)[:max(size - k, 0)]
                w[idx] = 0
                return w.reshape(vh.shape)
        else:
            f = (lambda a: P.proximal_operator(a, normalized_sparsity=k)) if via_dispatch else (lambda a: P.normalized_sparsity_prox(a, k))
            top = np.sort(flat ** 2)[::-1][:k]
            # nearest unit-norm k-sparse point: distance^2 = ||v||^2 + 1 - 2*||H_k(v)||
            best_d = float(np.sum(flat ** 2) + 1 - 2 * np.sqrt(np.sum(top)))
            if not np.any(flat):
                desc["class"] = cls = "all-zero-input"

            def feas(x):
                if not np.all(np.isfinite(x)):
                    return False, "non-finite output"
                if int(np.count_nonzero(x)) > k:
                    return False, "%d non-zeros > %d" % (int(np.count_nonzero(x)), k)
                return (abs(np.linalg.norm(x) - 1) <= 50 * eps * size), "norm %r != 1" % float(np.linalg.norm(x))

            def comp(r):
                w = r.standard_normal(size)
                idx = r.permutation(size)[:max(size - k, 0)]
                w[idx] = 0
                if not np.any(w):
                    w[0] = 1.0
                return (w / np.linalg.norm(w)).reshape(vh.shape)
        refx = None
    elif op == "normalize":
        f = lambda a: P.proximal_operator(a, normalize=True)
        if not np.any(vh):
            ctx.skip("max-normalisation of an all-zero array (no feasible scaling)")
            return

        def feas(x):
            return (np.all(np.isfinite(x)) and abs(np.max(np.abs(x)) - 1) <= 10 * eps), "max|x| = %r != 1" % float(np.max(np.abs(x)))
        comp = None
    elif op == "svt":
        param = float(gen.choice(rs, [0.0, 0.1, 1.0, 10.0]) * scale)
        f = lambda a: P.svd_thresholding(a, param)
        U, s, Vt = np.linalg.svd(vh, full_matrices=False)
        refx = (U * np.maximum(s - param, 0)) @ Vt
        obj = lambda x: param * np.sum(np.linalg.svd(x, compute_uv=False)) + 0.5 * np.sum((x - vh) ** 2)
        comp = lambda r: refx + r.standard_normal(v.shape) * (nrm + 1) * 0.1
        if rs.rand() < 0.25 and dt == "float64":
            # complex matrices (robust PCA of complex data): singular values shrunk, singular vectors kept
            z = (vh + 1j * rs.standard_normal(v.shape) * scale).astype(np.complex128)
            got = np.asarray(f(z.copy()))
            Uc, sc_, Vc = np.linalg.svd(z, full_matrices=False)
            want = (Uc * np.maximum(sc_ - param, 0)) @ Vc
            ctx.count("svt_complex_input")
            if got.shape != want.shape or not np.allclose(got, want, rtol=1e-10, atol=1e-10 * (float(sc_[0]) + param + 1e-300)):
                ctx.violation("C12:svt:optimal:complex", "singular-value thresholding of a complex %s matrix is not U max(S - t, 0) V^H: max dev %.3g" % (
                    "x".join(map(str, z.shape)), float(np.max(np.abs(got - want))) if got.shape == want.shape else float("nan")), {"desc": desc, "v": z, "out": got})
                return
    elif op == "procrustes":
        f = lambda a: P.procrustes(a)
        U, s, Vt = np.linalg.svd(vh, full_matrices=False)
        refx = None
        best_d = float(np.sum((U @ Vt - vh) ** 2))
        tall = v.shape[0] >= v.shape[1]

        def feas(x):
            G = (x.T @ x) if tall else (x @ x.T)
            return (np.max(np.abs(G - np.eye(G.shape[0]))) <= 200 * eps * max(v.shape)), "not orthonormal (dev %.3g)" % np.max(np.abs(G - np.eye(G.shape[0])))

        def comp(r):
            q = np.linalg.qr(r.standard_normal((max(v.shape), min(v.shape))))[0]
            return q if tall else q.T
        if s.size and s[-1] < 1e-8 * max(s[0], 1e-300):
            desc["class"] = cls = "rank-deficient"
    else:
        raise ValueError(op)

    desc["param"] = param
    if op in ("l1", "l2", "simplex", "soft_sparsity", "svt") and param is not None:
        nrm = max(nrm, abs(float(param)))  # the parameter sets the scale of the output as much as the input does
        atol = 2e3 * eps * (1 + nrm) * max(size, 1)
    ctx.sample({"case": desc}, 5)
    key = lambda clause: "C12:%s:%s:%s" % (op, clause, desc["class"] if op in ("non_negative", "monotone", "unimodal", "soft_sparsity", "normalized_sparsity", "l2", "procrustes") else "any")

    # the same values presented in another memory layout / as a read-only array / (integer-valued inputs) with an integer dtype:
    # the minimiser depends on the values only
    present = gen.choice(rs, ["C", "C", "F", "transposed-view", "readonly", "int-dtype"])
    vin = v.copy()
    if present == "F" and v.ndim == 2:
        vin = np.asfortranarray(v)
    elif present == "transposed-view" and v.ndim == 2:
        vin = np.ascontiguousarray(v.T).T
    elif present == "readonly":
        vin.setflags(write=False)
    elif present == "int-dtype" and np.all(v == np.round(v)) and float(np.max(np.abs(v), initial=0)) < 1e6:
        vin = v.astype(np.int64 if rs.rand() < 0.7 else np.int32)
        if np.all(v >= 0) and rs.rand() < 0.5:
            # counts / image columns: unsigned storage, where a difference taken in the input's own dtype wraps around
            ok_ = [t for t in (np.uint8, np.uint16, np.uint32, np.uint64) if float(np.max(v, initial=0)) <= np.iinfo(t).max]
            vin = v.astype(ok_[int(rs.randint(len(ok_)))])
            present = "uint-dtype"
    else:
        present = "C"
    desc["presented_as"] = present
    ctx.count("presented_as/" + present)
    out = f(vin)
    x = ref.hp(np.asarray(out))
    if refx is not None and x.shape != np.shape(refx) and x.size == np.size(refx):
        # monotone/unimodal return (n,1) for 1-D input; compare content
        x = x.reshape(np.shape(refx))
    if not np.all(np.isfinite(x)):
        ctx.violation(key("finite"), "%s returned non-finite values" % op, {"desc": desc, "v": v, "out": out})
        return
    if np.any(x != vh.reshape(x.shape) if x.size == vh.size else True):
        ctx.nontriv(dict(desc, h=float(np.sum(vh * np.arange(1, size + 1).reshape(vh.shape)))))

    # feasibility
    ctx.count("clause/feasible")
    okf, why = feas(x)
    if not okf:
        ctx.violation(key("feasible"), "%s output infeasible: %s" % (op, why), {"desc": desc, "v": v, "out": out})
        return

    # optimality vs reference
    ctx.count("clause/optimal")
    vv = vh.reshape(x.shape) if x.size == vh.size else vh
    if op == "soft_sparsity":
        # judged per column, so that a break on columns outside the ball is never hidden behind the inside-ball finding
        rxc, xc = cols(np.asarray(refx).reshape(x.shape)), cols(x)
        for j, (a, b) in enumerate(zip(xc, rxc)):
            if np.max(np.abs(a - b)) > atol:
                kcls = "inside-ball" if inside_cols[j] else "outside-ball"
                ctx.violation("C12:soft_sparsity:optimal:%s" % kcls, "soft_sparsity column %d (%s) is not the l1-ball projection: max |out-ref| = %.3g" % (j, kcls, np.max(np.abs(a - b))),
                              {"desc": desc, "v": v, "out": out, "ref": refx})
                return
        refx = None
        comp = None
    if refx is not None:
        rx = np.asarray(refx).reshape(x.shape)
        if obj is not None:
            o_out, o_ref = obj(x.reshape(vh.shape)), obj(np.asarray(refx).reshape(vh.shape))
            bad = o_out > o_ref + atol * (1 + nrm) and np.max(np.abs(x - rx)) > atol
        else:
            d_out, d_ref = np.sum((x - vv) ** 2), np.sum((rx - vv) ** 2)
            bad = d_out > d_ref + atol * (1 + nrm) and np.max(np.abs(x - rx)) > atol
        if op in ("l1", "l2", "l2_square", "smoothness", "non_negative", "simplex", "soft_sparsity", "monotone", "svt"):
            # strictly convex problems: the minimiser is unique, compare points
            bad = np.max(np.abs(x - rx)) > atol
        if bad:
            ctx.violation(key("optimal"), "%s(v) is not the minimiser: max |out-ref| = %.3g (tol %.3g)" % (op, np.max(np.abs(x - rx)), atol),
                          {"desc": desc, "v": v, "out": out, "ref": refx})
            return
    elif op in ("hard_sparsity", "normalized_sparsity", "procrustes"):
        d_out = float(np.sum((x - vv) ** 2))
        if d_out > best_d + atol * (1 + nrm):
            ctx.violation(key("optimal"), "%s(v) is not a nearest feasible point: dist^2 %.6g > best %.6g" % (op, d_out, best_d), {"desc": desc, "v": v, "out": out})
            return

    # competitor search (oracle-free)
    if comp is not None:
        ctx.count("clause/competitor")
        for _ in range(6):
            c = np.asarray(comp(rs), dtype=float).reshape(x.shape)
            okc, _w = feas(c)
            if not okc:
                continue
            if obj is not None:
                better = obj(c.reshape(vh.shape)) < obj(x.reshape(vh.shape)) - atol * (1 + nrm)
            else:
                better = np.sum((c - vv) ** 2) < np.sum((x - vv) ** 2) - atol * (1 + nrm)
            if better:
                ctx.violation(key("optimal"), "%s(v): a feasible competitor has a strictly smaller objective" % op, {"desc": desc, "v": v, "out": out, "competitor": c})
                return

    # idempotence
    if op in PROJECTION:
        ctx.count("clause/idempotent")
        out2 = ref.hp(np.asarray(f(np.asarray(out).copy()))).reshape(x.shape)
        if not np.all(np.isfinite(out2)) or np.max(np.abs(out2 - x)) > atol:
            ctx.violation(key("idempotent"), "%s(%s(v)) != %s(v) (max diff %.3g)" % (op, op, op, float(np.max(np.abs(out2 - x))) if np.all(np.isfinite(out2)) else float("nan")),
                          {"desc": desc, "v": v, "out": out, "out2": out2})
            return

    # firm non-expansiveness
    if op in CONVEX:
        ctx.count("clause/firmly-nonexpansive")
        u = (v + (rs.standard_normal(v.shape) * (nrm + 1) * gen.choice(rs, [1.0, 0.1, 1e-3])).astype(dt)).astype(dt)
        pu = ref.hp(np.asarray(f(u.copy()))).reshape(x.shape)
        d = pu - x
        lhs, rhs = float(np.sum(d * d)), float(np.sum(d * (ref.hp(u).reshape(x.shape) - vv)))
        fk = key("firmly-nonexpansive")
        if op == "soft_sparsity" and any(np.sum(np.abs(c)) <= param for c in cols(ref.hp(u))):
            fk = "C12:soft_sparsity:firmly-nonexpansive:inside-ball"  # the second point has a column inside the ball
        if op == "non_negative" and u.size and np.max(u) < 0:
            fk = "C12:non_negative:firmly-nonexpansive:max-negative"
        if np.all(np.isfinite(pu)) and lhs > rhs + atol * (1 + nrm) * (1 + np.sqrt(lhs)):
            ctx.violation(fk, "%s: ||P(u)-P(v)||^2=%.6g > <P(u)-P(v),u-v>=%.6g" % (op, lhs, rhs), {"desc": desc, "v": v, "u": u})
