"""C16 — seeded calls are reproducible and independent of the global RNG state.

Global-RNG tracer: numpy.random.get_state() before/after every call given an integer seed must be identical; outputs of
two calls with the same integer seed (or two identically seeded RandomState objects) must be bit-identical although the
harness reseeds and draws from the global generator in between; seed-free deterministic functions must repeat exactly.
"""
import os
import numpy as np

from ..core import gen, ref, decomp

ID = "C16"
RULE = ("every seed-accepting entry point x seeds {0, 1, 2^31-1, random} x seeded shapes/options; the global generator is reseeded "
        "and advanced between the two calls; non-trivial = the output actually depends on the seed (differs for seed+1) ; distinct = "
        "distinct (entry point, shapes, options, seed)")
ASSUMPTIONS = ["bitwise comparison of every array reachable from the return value", "NumPy backend",
               "concurrent clause: three threads (two with the same seed) call the entry point at once with a yield injected at every statement "
               "boundary inside tensorly (sys.monitoring LINE, at most 20 000 yields per case); each result must equal the call made alone"]
ENTRY = ["random_tensor", "random_cp", "random_tucker", "random_tt", "random_tt_matrix", "random_tr", "random_parafac2",
         "parafac", "parafac_svd_pad", "nn_parafac", "nn_parafac_hals", "constrained_parafac", "randomised_parafac", "tucker", "tucker_randomized_svd",
         "nn_tucker", "nn_tucker_hals", "parafac2", "tr_als", "tr_als_sampled", "tt_cross", "randomized_svd", "sample_khatri_rao",
         "cp_regressor", "tucker_regressor", "cp_plsr", "estimator_refit", "shared_rank_list", "initialize_cp", "initialize_tucker", "initialize_constrained", "initialize_parafac2",
         "seedfree_decomp", "seedfree_tenalg"]
CASE_TIMEOUT = {"quick": 120, "thorough": 3000}
WALL_BUDGET = {"quick": 900, "thorough": 5400}


def plan(tier, seed):
    n = 3840 if tier == "quick" else 64000
    every = 48 if tier == "quick" else 16   # cases whose second call runs in a fresh interpreter (hidden module state)
    extra = [{"gen": "ambient", "seed": seed}] if tier == "thorough" else []
    return extra + [dict({"gen": ENTRY[i % len(ENTRY)], "idx": i, "seed": seed}, **({"fresh": True} if (i // len(ENTRY)) % every == 0 else {})) for i in range(n)]


def floors(tier):
    f = {"checked/%s" % e: 30 for e in ENTRY}
    f.update({"compared/%s" % e: 20 for e in ENTRY if not e.startswith("seedfree")})
    f.update({"clause/concurrent-same-seed": 300, "concurrent_yield_injections": 10000, "clause/fresh-process": 50, "clause/same-int-seed": 1500, "clause/global-state-untouched": 1500, "clause/same-randomstate": 1200, "clause/seed-free-repeat": 100,
              "seed_sensitive": 1000})
    return f


def bounds(tier):
    return {"seeds": [0, 1, 2 ** 31 - 1, "random"], "entry_points": len(ENTRY)}


def flat_bytes(o, out=None):
    """bytes of every array / scalar reachable from a return value, in traversal order"""
    from tensorly.cp_tensor import CPTensor
    from tensorly.tucker_tensor import TuckerTensor
    from tensorly.parafac2_tensor import Parafac2Tensor
    from tensorly.tt_tensor import TTTensor
    from tensorly.tr_tensor import TRTensor
    from tensorly.tt_matrix import TTMatrix
    out = [] if out is None else out
    if isinstance(o, np.ndarray):
        out.append((str(o.dtype), o.shape, np.ascontiguousarray(o).tobytes()))
    elif isinstance(o, (np.generic, int, float, complex, bool)) and not isinstance(o, np.ndarray):
        out.append(("scalar", repr(o)))
    elif isinstance(o, (CPTensor, TuckerTensor, Parafac2Tensor)):
        for x in o:
            flat_bytes(x, out)
    elif isinstance(o, (TTTensor, TRTensor, TTMatrix)):
        for x in o.factors:
            flat_bytes(x, out)
    elif isinstance(o, (list, tuple)):
        for x in o:
            flat_bytes(x, out)
    elif isinstance(o, dict):
        for k in sorted(o):
            flat_bytes(o[k], out)
    elif o is None:
        out.append(("none",))
    else:
        out.append(("repr", repr(o)[:200]))
    return out


def same_state(a, b):
    return a[0] == b[0] and np.array_equal(a[1], b[1]) and a[2:] == b[2:]


def build(entry, rs):
    """returns (callable(random_state) -> output, descriptor)"""
    import tensorly as tl
    from tensorly import random as R
    from tensorly import decomposition as D
    from tensorly.decomposition import _cp, _tucker, _constrained_cp, _parafac2
    from tensorly.contrib.decomposition import tensor_train_cross
    from tensorly.tenalg import svd_interface
    from tensorly.regression.cp_regression import CPRegressor
    from tensorly.regression.tucker_regression import TuckerRegressor
    from tensorly.regression.cp_plsr import CP_PLSR
    order = int(rs.randint(2, 5))
    shp = gen.shape(rs, order, 2, 5)
    Rk = int(rs.randint(1, 4))
    X = rs.standard_normal(shp)
    Xp = np.abs(X)
    d = {"entry": entry, "shape": shp, "rank": Rk}
    it = int(rs.randint(1, 4))
    if entry == "random_tensor":
        return (lambda s: R.random_tensor(tuple(shp), random_state=s)), d
    if entry == "random_cp":
        o = {"full": bool(rs.rand() < 0.3), "orthogonal": bool(rs.rand() < 0.3) and Rk <= min(shp), "normalise_factors": bool(rs.rand() < 0.5)}
        d.update(o)
        return (lambda s: R.random_cp(tuple(shp), Rk, random_state=s, **o)), d
    if entry == "random_tucker":
        rk = [int(rs.randint(1, s + 1)) for s in shp]
        o = {"full": bool(rs.rand() < 0.3), "orthogonal": bool(rs.rand() < 0.3), "non_negative": bool(rs.rand() < 0.3)}
        d.update(o, rank=rk)
        return (lambda s: R.random_tucker(tuple(shp), rk, random_state=s, **o)), d
    if entry in ("random_tt", "random_tr"):
        rk = [int(rs.randint(1, 4)) for _ in range(order + 1)]
        if entry == "random_tt":
            rk[0] = rk[-1] = 1
            return (lambda s: R.random_tt(tuple(shp), rk, full=bool(it == 1), random_state=s)), dict(d, rank=rk)
        rk[-1] = rk[0]
        return (lambda s: R.random_tr(tuple(shp), rk, full=bool(it == 1), random_state=s)), dict(d, rank=rk)
    if entry == "random_tt_matrix":
        n = int(rs.randint(1, 4))
        sh = gen.shape(rs, 2 * n, 1, 3)
        rk = [1] + [int(rs.randint(1, 3)) for _ in range(n - 1)] + [1]
        return (lambda s: R.random_tt_matrix(tuple(sh), rk, full=bool(it == 1), random_state=s)), dict(d, shape=sh, rank=rk)
    if entry == "random_parafac2":
        I, K = int(rs.randint(2, 5)), int(rs.randint(Rk, Rk + 3))
        shapes = [(int(rs.randint(Rk, Rk + 4)), K) for _ in range(I)]
        return (lambda s: R.random_parafac2(shapes, Rk, full=bool(it == 1), random_state=s, normalise_factors=bool(it == 2))), dict(d, shape=shapes)
    # the SVD routine is a parameter of every SVD-initialised / projection-based algorithm; with the randomized one the seed has to reach it
    rsvd = bool(rs.rand() < 0.35)
    # ... named, or handed over as the function itself / a partial application of it (svd_interface documents "a name or a callable"
    # and forwards its keywords, random_state included)
    import functools
    from tensorly.tenalg.svd import randomized_svd as _rsvd_fn
    spell = gen.choice(rs, ["name", "name", "function", "partial"])
    rsvd_arg = {"name": "randomized_svd", "function": _rsvd_fn, "partial": functools.partial(_rsvd_fn, n_oversamples=int(rs.randint(1, 6)))}[spell]
    if rsvd:
        d["svd_spelled_as"] = spell
    sv = {"init": "svd", "svd": rsvd_arg} if rsvd else {"init": "random"}
    if entry == "parafac":
        o = {"normalize_factors": bool(rs.rand() < 0.3), "linesearch": bool(rs.rand() < 0.2)}
        return (lambda s: D.parafac(X, Rk, n_iter_max=it, random_state=s, return_errors=True, **sv, **o)), dict(d, randomized_svd=rsvd, **o)
    if entry == "parafac_svd_pad":
        Rbig = max(shp) + int(rs.randint(1, 3))  # rank above a mode size: the SVD init draws the padding
        return (lambda s: D.parafac(X, Rbig, n_iter_max=0, init="svd", random_state=s)), dict(d, rank=Rbig)
    if entry == "nn_parafac":
        return (lambda s: D.non_negative_parafac(Xp, Rk, n_iter_max=it, random_state=s, return_errors=True, **sv)), dict(d, randomized_svd=rsvd)
    if entry == "nn_parafac_hals":
        return (lambda s: D.non_negative_parafac_hals(Xp, Rk, n_iter_max=it, random_state=s, return_errors=True, **sv)), dict(d, randomized_svd=rsvd)
    if entry == "constrained_parafac":
        X3 = rs.standard_normal(gen.shape(rs, 3, 2, 5))
        return (lambda s: D.constrained_parafac(X3, Rk, n_iter_max=it, random_state=s, non_negative=True, return_errors=True, **sv)), dict(d, shape=list(X3.shape), randomized_svd=rsvd)
    if entry == "randomised_parafac":
        return (lambda s: D.randomised_parafac(X, Rk, 10, n_iter_max=it, random_state=s, return_errors=True, max_stagnation=0, **sv)), dict(d, randomized_svd=rsvd)
    if entry == "tucker":
        rk = [int(rs.randint(1, min(s, 3) + 1)) for s in shp]
        return (lambda s: D.tucker(X, rk, n_iter_max=it, init="random", random_state=s, return_errors=True)), dict(d, rank=rk)
    if entry == "tucker_randomized_svd":
        rk = [int(rs.randint(1, min(s, 3) + 1)) for s in shp]
        mk = (rs.uniform(size=X.shape) < 0.8).astype(float) if rs.rand() < 0.5 else None    # masked: the SVD is repeated inside the imputation loop
        return (lambda s: D.tucker(X, rk, n_iter_max=it, init="svd", svd=rsvd_arg, random_state=s, mask=mk)), dict(d, rank=rk, masked=mk is not None, svd_spelled_as=spell)
    if entry == "nn_tucker":
        rk = [int(rs.randint(1, min(s, 3) + 1)) for s in shp]
        return (lambda s: D.non_negative_tucker(Xp, rk, n_iter_max=it, init="random", random_state=s, return_errors=True)), dict(d, rank=rk)
    if entry == "nn_tucker_hals":
        rk = [int(rs.randint(1, min(s, 3) + 1)) for s in shp]
        return (lambda s: D.non_negative_tucker_hals(Xp, rk, n_iter_max=it, init="random", random_state=s, return_errors=True)), dict(d, rank=rk)
    if entry in ("parafac2", "initialize_parafac2"):
        I, K = int(rs.randint(2, 5)), int(rs.randint(3, 6))
        r2 = int(rs.randint(1, min(3, K) + 1))
        sl = [rs.standard_normal((int(rs.randint(r2 + 1, 7)), K)) for _ in range(I)]
        if rs.rand() < 0.35:
            # few short slices with many columns: the SVD start then works on the stacked slices instead of the cross-product
            I = int(rs.randint(2, 4))
            rows_ = [int(rs.randint(r2 + 1, 5)) for _ in range(I)]
            K = sum(rows_) + int(rs.randint(0, 12))
            sl = [rs.standard_normal((r_, K)) for r_ in rows_]
            d["slices"] = "wide"
        if entry == "parafac2":
            p2o = {"init": gen.choice(rs, ["random", "svd", "svd"]), "svd": rsvd_arg} if rsvd else {"init": "random"}
            return (lambda s: D.parafac2(sl, r2, n_iter_max=it + (6 if rsvd else 0), random_state=s, return_errors=True, **p2o)), dict(d, shape=[list(x.shape) for x in sl], rank=r2, randomized_svd=rsvd)
        return (lambda s: _parafac2.initialize_decomposition(sl, r2, init="random", random_state=s)), dict(d, shape=[list(x.shape) for x in sl], rank=r2)
    if entry in ("tr_als", "tr_als_sampled"):
        X3 = rs.standard_normal(gen.shape(rs, 3, 2, 4))
        rk = [int(rs.randint(1, 3)) for _ in range(3)]
        rk.append(rk[0])
        if entry == "tr_als":
            return (lambda s: D.tensor_ring_als(X3, rk, n_iter_max=it, random_state=s)), dict(d, shape=list(X3.shape), rank=rk)
        return (lambda s: D.tensor_ring_als_sampled(X3, rk, n_samples=10, n_iter_max=it, random_state=s, uniform_sampling=bool(it == 1))), dict(d, shape=list(X3.shape), rank=rk)
    if entry == "tt_cross":
        sh = gen.shape(rs, 3, 3, 5)
        # a smooth low-rank tensor so that maxvol is well defined
        g_ = [np.linspace(0.5, 1.5, n_) for n_ in sh]
        T = 1.0 / (g_[0][:, None, None] + g_[1][None, :, None] + g_[2][None, None, :]) + 0.3 * rs.standard_normal(sh)
        rk = [1, 2, 2, 1]
        def f_cross(s):
            try:
                return tensor_train_cross(T, rk, tol=1e-3, n_iter_max=3, random_state=s)
            except ValueError as e:  # documented: "Low Rank Approximation algorithm did not converge" -- must be reproducible too
                return ["raised", str(e)]
        return f_cross, dict(d, shape=sh, rank=rk)
    if entry == "randomized_svd":
        M = rs.standard_normal((int(rs.randint(2, 9)), int(rs.randint(2, 9))))
        k = int(rs.randint(1, 5))
        mk = (rs.uniform(size=M.shape) < 0.8).astype(float) if rs.rand() < 0.5 else None
        return (lambda s: svd_interface(M, method=rsvd_arg, n_eigenvecs=k, random_state=s, mask=mk)), dict(d, shape=list(M.shape), rank=k, masked=mk is not None, svd_spelled_as=spell)
    if entry == "sample_khatri_rao":
        mats = [rs.standard_normal((int(rs.randint(2, 6)), Rk)) for _ in range(int(rs.randint(2, 4)))]
        return (lambda s: D.sample_khatri_rao(mats, 7, random_state=s, return_sampled_rows=True)), dict(d, shape=[list(m.shape) for m in mats])
    if entry in ("cp_regressor", "tucker_regressor", "cp_plsr"):
        n = int(rs.randint(8, 20))
        fsh = gen.shape(rs, 2, 2, 4)
        Xr = rs.standard_normal([n] + fsh)
        y = rs.standard_normal(n)
        if entry == "cp_regressor" and rs.rand() < 0.5:
            y = rs.standard_normal([n] + gen.shape(rs, int(rs.randint(1, 3)), 1, 3))   # tensor-valued response: more factors to initialise
        elif entry == "cp_plsr" and rs.rand() < 0.5:
            y = rs.standard_normal((n, int(rs.randint(1, 4))))
        if entry == "cp_regressor":
            def f(s):
                e = CPRegressor(weight_rank=Rk, n_iter_max=it, random_state=s, verbose=0).fit(Xr, y)
                return [e.weight_tensor_, list(e.cp_weight_[1]), e.predict(Xr)]
        elif entry == "tucker_regressor":
            rk = [int(rs.randint(1, s_ + 1)) for s_ in fsh]

            def f(s):
                e = TuckerRegressor(weight_ranks=rk, n_iter_max=it, random_state=s, verbose=0).fit(Xr, y)
                return [e.weight_tensor_, e.predict(Xr)]
        else:
            def f(s):
                e = CP_PLSR(n_components=min(2, min(fsh)), random_state=s).fit(Xr, y)
                # the same scoring call twice on the fitted estimator, from the caller's own arrays: a repeat returns the same scores
                t1 = e.transform(Xr, y)
                t2 = e.transform(Xr, y)
                return [list(e.X_factors), list(e.Y_factors), e.predict(Xr), [np.array(a_, copy=True) for a_ in t1], [np.array(a_, copy=True) for a_ in t2]]
        return f, dict(d, shape=[n] + fsh)
    if entry == "shared_rank_list":
        # one rank list owned by the caller, first used for a decomposition that has to clamp it internally, then for seeded generators
        # and decompositions: the seeded results depend on the seed and on what the caller wrote in the list, nothing else
        big = [int(rs.randint(5, 8)) for _ in range(3)]
        small = [2, 2, 2]
        RANK = [1, 2, int(rs.randint(4, 7)), 1]
        Xsmall = rs.standard_normal(small)
        which = gen.choice(rs, ["random_tr", "tr_als", "random_tt", "tensor_train_then_tr"])

        def f(s):
            # the seeded call first, then the clamping decomposition with the same list: the *next* seeded call must see the same list
            if which == "random_tt":
                out = R.random_tt(tuple(big), RANK, random_state=s)
                D.tensor_train(Xsmall, RANK)
                return out
            if which == "tr_als":
                out = D.tensor_ring_als(rs_fixed, RANK, n_iter_max=2, random_state=s)
            else:
                out = R.random_tr(tuple(big), RANK, random_state=s)
            D.tensor_ring(Xsmall, RANK, mode=0)
            return out
        rs_fixed = rs.standard_normal(big)
        return f, dict(d, which=which, rank=list(RANK))
    if entry == "estimator_refit":
        # the same estimator object fitted twice, and a clone built from get_params(): an integer seed must give the same fit each time
        n = int(rs.randint(8, 20))
        fsh = gen.shape(rs, 2, 2, 4)
        Xr = rs.standard_normal([n] + fsh)
        y = rs.standard_normal(n)
        kind = gen.choice(rs, ["cp", "tucker", "plsr", "CP", "Tucker", "Parafac2", "TensorRingALS", "RandomizedCP", "ConstrainedCP", "CP_NN_HALS"])
        other = bool(rs.rand() < 0.5)
        Xr2, y2 = rs.standard_normal([n] + fsh), rs.standard_normal(n)
        Xd2 = np.abs(rs.standard_normal(X.shape)) + 0.1
        # for Tucker the rank is sometimes given as a fraction / 'same', i.e. resolved against the shape of each tensor it is fitted to;
        # the data fitted in between then has another shape
        tk_rank = gen.choice(rs, [[min(2, s_) for s_ in shp], 0.5, "same"])
        if kind == "Tucker" and not isinstance(tk_rank, list):
            Xd2 = np.abs(rs.standard_normal([s_ + 2 for s_ in X.shape])) + 0.1

        def f(s):
            if kind in ("cp", "tucker", "plsr"):
                mk = {"cp": lambda: CPRegressor(weight_rank=2, n_iter_max=it, random_state=s, verbose=0),
                      "tucker": lambda: TuckerRegressor(weight_ranks=[2, 2], n_iter_max=it, random_state=s, verbose=0),
                      "plsr": lambda: CP_PLSR(n_components=2, random_state=s)}[kind]
                grab = {"cp": lambda e: [e.weight_tensor_], "tucker": lambda e: [e.weight_tensor_], "plsr": lambda e: list(e.X_factors)}[kind]
                e = mk()
                first = grab(e.fit(Xr, y))
                extra = {}
                if other:     # a fit on other data in between must leave no trace, and is itself what a fresh estimator would give
                    extra = {"d_other": grab(e.fit(Xr2, y2)), "e_other_fresh": grab(mk().fit(Xr2, y2))}
                refit = grab(e.fit(Xr, y))
                c = mk().set_params(**e.get_params())
                clone = grab(c.fit(Xr, y))
            else:
                Xd = np.abs(X) if kind in ("ConstrainedCP", "CP_NN_HALS") else X
                kw = {"CP": dict(rank=Rk, n_iter_max=it, init="random"), "Tucker": dict(rank=tk_rank, n_iter_max=it, init="random"),
                      "TensorRingALS": dict(rank=[1] + [2] * (order - 1) + [1], n_iter_max=it), "RandomizedCP": dict(rank=Rk, n_samples=10, n_iter_max=it, max_stagnation=0),
                      "ConstrainedCP": dict(rank=Rk, n_iter_max=it, init="random", non_negative=True), "CP_NN_HALS": dict(rank=Rk, n_iter_max=it, init="random")}.get(kind)
                if kind == "Parafac2":
                    sl = [np.abs(Xr[i]) for i in range(3)]
                    e = D.Parafac2(rank=2, n_iter_max=it, random_state=s, return_errors=True)
                    first = e.fit_transform(sl)
                    extra = {}
                    if other:
                        sl2 = [np.abs(Xr2[i]) for i in range(3)]
                        extra = {"d_other": e.fit_transform(sl2), "e_other_fresh": D.Parafac2(rank=2, n_iter_max=it, random_state=s, return_errors=True).fit_transform(sl2)}
                    refit = e.fit_transform(sl)
                    clone = D.Parafac2(rank=2, n_iter_max=it, random_state=s, return_errors=True).fit_transform(sl)
                else:
                    Cls = getattr(D, kind)
                    e = Cls(random_state=s, **kw)
                    first = e.fit_transform(Xd)
                    extra = {}
                    if other:
                        extra = {"d_other": e.fit_transform(Xd2), "e_other_fresh": Cls(random_state=s, **kw).fit_transform(Xd2)}
                    refit = e.fit_transform(Xd)
                    clone = Cls(random_state=s, **kw).fit_transform(Xd)
            return dict({"a_first": first, "b_refit": refit, "c_clone": clone}, **extra)
        return f, dict(d, kind=kind, refit=True, other_fit_between=other)
    if entry == "initialize_cp":
        o = {"init": gen.choice(rs, ["random", "svd"]), "non_negative": bool(rs.rand() < 0.3), "normalize_factors": bool(rs.rand() < 0.3)}
        Rr = Rk if o["init"] == "random" else max(shp) + 1
        return (lambda s: _cp.initialize_cp(X, Rr, random_state=s, **o)), dict(d, rank=Rr, **o)
    if entry == "initialize_tucker":
        rk = [int(rs.randint(1, min(s_, 3) + 1)) for s_ in shp]
        return (lambda s: _tucker.initialize_tucker(X, rk, list(range(order)), s, init="random")), dict(d, rank=rk)
    if entry == "initialize_constrained":
        return (lambda s: _constrained_cp.initialize_constrained_parafac(X, Rk, init="random", random_state=s, non_negative=True)), d
    if entry == "seedfree_decomp":
        which = gen.choice(rs, ["parafac_svd", "tucker_svd", "tensor_train", "tensor_ring", "nn_parafac_svd"])
        r_ = min(Rk, min(shp))
        fns = {"parafac_svd": lambda s: D.parafac(X, r_, n_iter_max=it, init="svd", return_errors=True),
               "tucker_svd": lambda s: D.tucker(X, [min(2, s_) for s_ in shp], n_iter_max=it, init="svd"),
               "tensor_train": lambda s: D.tensor_train(X, 2),
               "tensor_ring": lambda s: D.tensor_ring(X, [1] + [2] * (order - 1) + [1]),
               "nn_parafac_svd": lambda s: D.non_negative_parafac_hals(Xp, r_, n_iter_max=it, init="svd")}
        return fns[which], dict(d, which=which, seed_free=True)
    if entry == "seedfree_tenalg":
        from tensorly import tenalg
        mats = [rs.standard_normal((s_, Rk)) for s_ in shp]
        which = gen.choice(rs, ["khatri_rao", "mttkrp", "multi_mode_dot", "unfold", "cp_to_tensor"])
        fns = {"khatri_rao": lambda s: tenalg.khatri_rao(mats), "mttkrp": lambda s: tenalg.unfolding_dot_khatri_rao(X, (None, mats), 0),
               "multi_mode_dot": lambda s: tenalg.multi_mode_dot(X, [m.T for m in mats]), "unfold": lambda s: tl.unfold(X, order - 1),
               "cp_to_tensor": lambda s: tl.cp_to_tensor((None, mats))}
        return fns[which], dict(d, which=which, seed_free=True)
    raise ValueError(entry)


def run_case(case, ctx):
    try:
        _run_case(case, ctx)
    except np.linalg.LinAlgError:
        ctx.skip("singular problem")


def _run_case(case, ctx):
    if case["gen"] == "ambient":
        from .c15 import ambient
        ambient(ctx, "C16")
        return
    import warnings
    warnings.simplefilter("ignore")
    entry = case["gen"]
    rs = gen.rng(case["seed"], case["idx"], entry)
    try:
        f, desc = build(entry, rs)
    except np.linalg.LinAlgError:
        ctx.skip("singular problem")
        return
    seed = [0, 1, 2 ** 31 - 1, int(rs.randint(0, 2 ** 31 - 1))][case["idx"] // len(ENTRY) % 4]
    desc["seed"] = seed
    ctx.count("checked/%s" % entry)
    ctx.sample({"case": desc}, 6)
    g1, g2 = int(rs.randint(0, 2 ** 31 - 1)), int(rs.randint(0, 2 ** 31 - 1))
    try:
        np.random.seed(g1)
        st0 = np.random.get_state()
        out1 = flat_bytes(f(seed))
        st1 = np.random.get_state()
        np.random.seed(g2)
        np.random.standard_normal(int(rs.randint(1, 50)))
        out2 = flat_bytes(f(seed))
    except np.linalg.LinAlgError:
        ctx.skip("singular problem")
        return
    except (ValueError, IndexError, ZeroDivisionError, FloatingPointError) as e:
        # a seeded call that raises produces nothing to compare; whether it should raise belongs to other properties. The floor on
        # seed_sensitive + the per-entry floors keep an entry point that always raises from passing silently.
        ctx.skip("%s raised %s: nothing to compare" % (entry, type(e).__name__))
        return
    if desc.get("seed_free"):
        ctx.count("clause/seed-free-repeat")
        ctx.nontriv(desc)
        if out1 != out2:
            ctx.violation("C16:%s:seed-free-repeat:%s" % (entry, desc["which"]), "deterministic call returned different results on repetition", desc)
        if not same_state(st0, st1):
            ctx.violation("C16:%s:global-state-touched:%s" % (entry, desc["which"]), "a seed-free deterministic function advanced the global NumPy generator", desc)
        return
    if case.get("fresh"):
        import hashlib, json as _json, os, subprocess, sys
        env = dict(os.environ, PYTHONWARNINGS="ignore")
        p = subprocess.run([sys.executable, "-c", "from tlv.props import c16; c16.child_main()"], input=_json.dumps({"case": case, "seed_used": seed}),
                           capture_output=True, text=True, env=env, timeout=300)
        ctx.count("clause/fresh-process")
        mine = hashlib.sha256(repr(out1).encode()).hexdigest()
        theirs = p.stdout.strip().splitlines()[-1] if p.stdout.strip() else "child failed: " + p.stderr[-200:]
        if mine != theirs:
            ctx.violation("C16:%s:fresh-process:any" % entry, "a fresh interpreter called with random_state=%d returns a different result (%s vs %s)" % (seed, mine[:12], theirs[:40]), desc)
            return
    if desc.get("refit"):
        parts = f(seed)
        ctx.count("clause/estimator-refit")
        b = {k: flat_bytes(v) for k, v in parts.items()}
        if "d_other" in b and b["d_other"] != b["e_other_fresh"]:
            ctx.violation("C16:estimator_refit:used-estimator-differs:%s" % desc["kind"], "estimator %s (random_state=%d) already fitted to one data set gives, on a second data set, "
                          "a different fit than a fresh estimator with the same parameters" % (desc["kind"], seed), desc)
            return
        if not (b["a_first"] == b["b_refit"] == b["c_clone"]):
            which_ = "refit" if b["a_first"] != b["b_refit"] else "clone"
            ctx.violation("C16:estimator_refit:%s-differs:%s" % (which_, desc["kind"]), "estimator %s built with random_state=%d: the %s gives a different fit than the first fit" % (desc["kind"], seed, which_), desc)
            return
    ctx.count("clause/same-int-seed")
    ctx.count("compared/%s" % entry)
    if out1 != out2:
        ctx.violation("C16:%s:same-int-seed:any" % entry, "two calls with random_state=%d returned different results after the global generator was reseeded" % seed, desc)
        return
    ctx.count("clause/global-state-untouched")
    if not same_state(st0, st1):
        ctx.violation("C16:%s:global-state-touched:any" % entry, "a call with an integer seed changed numpy's global random state", desc)
        return
    if not desc.get("refit") and case["idx"] % 2 == 0:
        if not concurrent_clause(ctx, entry, f, seed, out1, desc):
            return
    ctx.count("clause/same-randomstate")
    np.random.seed(g1)
    o3 = flat_bytes(f(np.random.RandomState(seed)))
    np.random.seed(g2)
    o4 = flat_bytes(f(np.random.RandomState(seed)))
    if o3 != o4:
        ctx.violation("C16:%s:same-randomstate:any" % entry, "two calls with identically seeded RandomState objects returned different results", desc)
        return
    # is the output seed-sensitive at all? (otherwise the comparison is vacuous)
    try:
        o5 = flat_bytes(f(seed + 1 if seed < 2 ** 31 - 1 else seed - 1))
        if o5 != out1:
            ctx.count("seed_sensitive")
            ctx.nontriv(desc)
        else:
            ctx.count("seed_insensitive/%s" % entry)
    except np.linalg.LinAlgError:
        pass


def concurrent_clause(ctx, entry, f, seed, out1, desc):
    """the same integer seed gives the same result when the two calls overlap in time: three threads (two with `seed`, one with
    another seed) call the entry point concurrently, with a yield injected at statement boundaries inside tensorly"""
    import sys, threading, time
    other = seed - 1 if seed > 0 else seed + 7
    try:
        ref_other = flat_bytes(f(other))
    except np.linalg.LinAlgError:
        return True
    inj = [0]
    tool = None
    try:
        mon = sys.monitoring
        tool = 4
        mon.use_tool_id(tool, "tlv-c16")
        marker = os.sep + "tensorly" + os.sep

        def on_line(code, line):
            if marker in code.co_filename and "site-packages" not in code.co_filename:
                inj[0] += 1
                if inj[0] < 20000:
                    time.sleep(0)
                    return None
            return mon.DISABLE
        mon.register_callback(tool, mon.events.LINE, on_line)
        mon.set_events(tool, mon.events.LINE)
    except Exception:  # noqa
        tool = None
    res, errs = {}, []

    def work(i, sd):
        import warnings
        warnings.simplefilter("ignore")
        try:
            res[i] = [flat_bytes(f(sd)) for _ in range(2)]
        except Exception as e:  # noqa
            errs.append((i, type(e).__name__, str(e)[:100]))
    old = sys.getswitchinterval()
    sys.setswitchinterval(1e-6)
    try:
        ths = [threading.Thread(target=work, args=(i, sd), daemon=True) for i, sd in enumerate([seed, other, seed])]
        for t in ths:
            t.start()
        for t in ths:
            t.join(timeout=120)
        hung = any(t.is_alive() for t in ths)
    finally:
        sys.setswitchinterval(old)
        if tool is not None:
            try:
                sys.monitoring.set_events(tool, 0)
                sys.monitoring.register_callback(tool, sys.monitoring.events.LINE, None)
                sys.monitoring.free_tool_id(tool)
            except Exception:  # noqa
                pass
    if hung:
        ctx.inconc("C16 concurrent clause: worker threads still running after 120 s (%s)" % entry)
        return True
    if errs:
        if all(e[1] == "LinAlgError" for e in errs):
            return True
        ctx.violation("C16:%s:concurrent-raises-%s:any" % (entry, errs[0][1]), "a seeded call that works alone raised when made from three threads at once: %s" % (errs[0],), desc)
        return False
    ctx.count("clause/concurrent-same-seed")
    ctx.count("concurrent_yield_injections", inj[0])
    for i, want in ((0, out1), (1, ref_other), (2, out1)):
        for k, got in enumerate(res.get(i, [])):
            if got != want:
                ctx.violation("C16:%s:concurrent-same-seed:any" % entry, "thread %d, call %d with random_state=%d returned a different result than the same call made alone "
                              "(two other seeded calls were running concurrently; %d yields injected)" % (i, k, seed if i != 1 else other, inj[0]), desc)
                return False
    return True


def child_main():
    """second call of a seeded entry point in a fresh interpreter: prints the digest of its output"""
    import hashlib, json, os, sys, warnings
    warnings.simplefilter("ignore")
    sys.path.insert(0, os.environ.get("VERIF_REPO", "/repo"))
    req = json.load(sys.stdin)
    case = req["case"]
    rs = gen.rng(case["seed"], case["idx"], case["gen"])
    f, _desc = build(case["gen"], rs)
    np.random.seed(12345)
    np.random.standard_normal(7)
    print(hashlib.sha256(repr(flat_bytes(f(req["seed_used"]))).encode()).hexdigest())
