"""C04 — canonicalising / algebraic transforms preserve the represented tensor and establish their canonical form.

Every case builds a factorised tensor (with the degenerate classes the statement names: zero columns, zero-mean
columns, negative weights, rank 1), applies one real transform, and compares the dense reconstruction before and
after with independent einsum formulas (harness-side, never tensorly's), then checks the advertised canonical form.
"""
import itertools

import numpy as np

from ..core import gen, ref, tol

ID = "C04"
RULE = ("seeded factorised tensors per transform with enumerated degenerate classes; non-trivial = the transform has "
        "something to do (rank > 1 or non-unit scales or a sign to move or a real permutation); distinct = distinct "
        "(transform, shapes, rank, options, degenerate class) descriptors")
ASSUMPTIONS = ["numpy.einsum / numpy.linalg are the trusted references", "NumPy backend only",
               "cp_permute_factors alignment is asserted on permuted+rescaled(+1e-3 noise) copies where the best matching is unique",
               "svd compression: thresholds/ranks that discard only numerically-zero singular values"]
GENS = ["cp_normalize", "tucker_normalize", "parafac2_normalise", "cp_flip_sign", "cp_mode_dot", "tucker_mode_dot",
        "pad_tt_rank", "cp_permute_factors", "from_CPTensor", "svd_compress"]
DTYPES = ["float64", "float64", "float32"]


def plan(tier, seed):
    n = 20000 if tier == "quick" else 240000
    return [{"gen": GENS[i % len(GENS)], "idx": i, "seed": seed} for i in range(n)]


def floors(tier):
    f = {"checked/%s" % g: 150 for g in GENS}
    f["clause/dense-preserved"] = 1500
    f["clause/canonical-form"] = 800
    return f


def bounds(tier):
    return {"orders": "2-4", "mode_sizes": "1-5", "ranks": "1-4", "dtypes": sorted(set(DTYPES))}


def _cp_scale(w, factors):
    """sum_r |w_r| prod_n ||a_n[:, r]||  (an upper bound on every entry and on the Frobenius norm)"""
    R = factors[0].shape[1]
    s = np.ones(R) if w is None else np.abs(ref.hp(w))
    for f in factors:
        s = s * np.linalg.norm(ref.hp(f), axis=0)
    return float(np.sum(s))


def _close(got, want, scale, eps, c=200.0):
    got, want = np.asarray(got), np.asarray(want)
    if got.shape != want.shape:
        return False, "shape %s != %s" % (got.shape, want.shape)
    if not np.all(np.isfinite(got)):
        return False, "non-finite entries"
    err = float(np.max(np.abs(ref.hp(got) - ref.hp(want)))) if got.size else 0.0
    lim = c * eps * scale + 1e-300
    return err <= lim, "max err %.3g > %.3g" % (err, lim)


def _mk_cp(rs, dt, order=None, degenerate=None, min_size=1):
    order = order or int(rs.randint(2, 5))
    shp = gen.shape(rs, order, min_size, 5)
    R = int(rs.randint(1, 5))
    kind = gen.choice(rs, ["gauss", "gauss", "int", "scaled"])
    factors = [gen.arr(rs, [s, R], dt, kind) for s in shp]
    wk = gen.choice(rs, ["none", "ones", "generic", "negative", "mixed"])
    w = {"none": None, "ones": np.ones(R), "generic": rs.uniform(0.2, 3, R), "negative": -rs.uniform(0.2, 3, R),
         "mixed": rs.standard_normal(R)}[wk]
    if w is not None:
        w = w.astype(dt)
    deg = degenerate if degenerate is not None else gen.choice(rs, ["none", "none", "zerocol", "zeromean", "zeroweight", "tinycol"])
    if deg == "tinycol":
        # a column whose norm is far below machine epsilon but not zero; the scale sits in the weight, so the component is
        # as large as the others: normalisation must treat it like any other column (only an exactly zero column is special)
        tiny = 1e-19 if np.dtype(dt) == np.float64 else 1e-9
        k, r = int(rs.randint(order)), int(rs.randint(R))
        factors[k][:, r] = (factors[k][:, r] * tiny).astype(dt)
        if w is None:
            w = np.ones(R, dtype=dt)
            wk = "ones"
        w = w.copy()
        w[r] = np.asarray(w[r] / tiny, dtype=dt)
        if not np.any(factors[k][:, r]):
            deg = "zerocol"
    if deg == "zerocol":
        factors[int(rs.randint(order))][:, int(rs.randint(R))] = 0
    elif deg == "zeromean":
        k = int(rs.randint(order))
        if shp[k] >= 2:
            r = int(rs.randint(R))
            col = np.zeros(shp[k])
            col[0], col[1] = 1.5, -1.5
            factors[k][:, r] = col.astype(dt)
        else:
            deg = "none"
    elif deg == "zeroweight" and w is not None:
        w[int(rs.randint(R))] = 0
    return shp, R, w, factors, {"shape": shp, "rank": R, "weights": wk, "degenerate": deg, "kind": kind}


def run_case(case, ctx):
    import tensorly as tl
    from tensorly import cp_tensor as cpm, tucker_tensor as tkm, tt_tensor as ttm, parafac2_tensor as p2, preprocessing as pre

    g = case["gen"]
    rs = gen.rng(case["seed"], case["idx"], g)
    dt = gen.choice(rs, DTYPES)
    eps = tol.eps_of(dt)
    ctx.count("checked/%s" % g)

    def viol(clause, cls, what, wit):
        ctx.violation("C04:%s:%s:%s" % (g, clause, cls), what, wit)

    def dense_check(cls, got, want, scale, desc, what="dense tensor changed by the transform"):
        ctx.count("clause/dense-preserved")
        ok, why = _close(got, want, scale, eps)
        if not ok:
            viol("dense-preserved", cls, "%s: %s" % (what, why), {"desc": desc, "got": got, "want": want})
        return ok

    # ------------------------------------------------------------------------------------------
    if g == "cp_normalize":
        shp, R, w, factors, desc = _mk_cp(rs, dt)
        wrapper = bool(rs.rand() < 0.5)
        method = wrapper and bool(rs.rand() < 0.5)
        desc.update(dtype=dt, wrapper=wrapper, method=method)
        before, _, _ = ref.cp_dense(w, factors)
        scale = _cp_scale(w, factors)
        cls = desc["degenerate"] if desc["degenerate"] in ("zerocol", "tinycol") else "any"
        obj = cpm.CPTensor((w, [f.copy() for f in factors])) if wrapper else (w, [f.copy() for f in factors])
        if method:
            obj.normalize()
            out = obj
        else:
            out = cpm.cp_normalize(obj)
        ow, of = out
        after, _, _ = ref.cp_dense(ow, of)
        dense_check(cls, after, before, scale, desc)
        ctx.count("clause/canonical-form")
        for n_, f in enumerate(of):
            nrm = np.linalg.norm(ref.hp(f), axis=0)
            for r in range(R):
                unit = abs(nrm[r] - 1) <= 50 * eps
                zero = (nrm[r] == 0 and ow[r] == 0)
                if not (unit or zero):
                    viol("canonical-form", cls, "after cp_normalize column %d of mode %d has norm %r (weight %r): neither unit nor (zero with zero weight)" % (r, n_, nrm[r], ow[r]), desc)
                    break
        ctx.nontriv(desc)
        ctx.sample({"gen": g, "desc": desc}, 2)
    elif g == "tucker_normalize":
        order = int(rs.randint(2, 5))
        shp, rk = gen.shape(rs, order, 1, 5), gen.shape(rs, order, 1, 4)
        kind = gen.choice(rs, ["gauss", "int", "scaled"])
        core = gen.arr(rs, rk, dt, kind)
        factors = [gen.arr(rs, [s, r], dt, kind) for s, r in zip(shp, rk)]
        deg = gen.choice(rs, ["none", "none", "zerocol", "tinycol"])
        if deg == "zerocol":
            k = int(rs.randint(order))
            factors[k][:, int(rs.randint(rk[k]))] = 0
        elif deg == "tinycol":
            tiny = 1e-19 if np.dtype(dt) == np.float64 else 1e-9
            k = int(rs.randint(order))
            r = int(rs.randint(rk[k]))
            factors[k][:, r] = (factors[k][:, r] * tiny).astype(dt)
            idx = [slice(None)] * order
            idx[k] = r
            core[tuple(idx)] = (core[tuple(idx)] / tiny).astype(dt)
            if not np.any(factors[k][:, r]):
                deg = "zerocol"
        wrapper = bool(rs.rand() < 0.5)
        method = wrapper and bool(rs.rand() < 0.5)
        desc = {"shape": shp, "rank": rk, "degenerate": deg, "dtype": dt, "wrapper": wrapper, "method": method}
        before, absb, _ = ref.tucker_dense(core, factors)
        scale = float(np.max(absb)) if absb.size else 0.0
        obj = tkm.TuckerTensor((core.copy(), [f.copy() for f in factors])) if wrapper else (core.copy(), [f.copy() for f in factors])
        if method:
            obj.normalize()
            out = obj
        else:
            out = tkm.tucker_normalize(obj)
        oc, of = out
        after, _, _ = ref.tucker_dense(oc, of)
        dense_check("any", after, before, scale * 4, desc)
        ctx.count("clause/canonical-form")
        for n_, f in enumerate(of):
            nrm = np.linalg.norm(ref.hp(f), axis=0)
            for r in range(rk[n_]):
                sl = np.take(np.asarray(oc), r, axis=n_)
                if not (abs(nrm[r] - 1) <= 50 * eps or (nrm[r] == 0 and not np.any(sl))):
                    viol("canonical-form", "any", "after tucker_normalize column %d of mode %d has norm %r and a non-zero core slice" % (r, n_, nrm[r]), desc)
                    break
        ctx.nontriv(desc)
    elif g == "parafac2_normalise":
        I, R, K = int(rs.randint(2, 5)), int(rs.randint(1, 4)), int(rs.randint(1, 5))
        J = [int(rs.randint(R, R + 3)) for _ in range(I)]
        A_, B_, C_ = gen.arr(rs, [I, R], dt), gen.arr(rs, [R, R], dt), gen.arr(rs, [K, R], dt)
        P = [gen.orth(rs, j, R, dt) for j in J]
        wk = gen.choice(rs, ["none", "generic", "negative"])
        w = {"none": None, "generic": rs.uniform(0.2, 3, R).astype(dt), "negative": (-rs.uniform(0.2, 3, R)).astype(dt)}[wk]
        deg = gen.choice(rs, ["none", "none", "zerocol"])
        if deg == "zerocol":
            [A_, B_, C_][int(rs.randint(3))][:, int(rs.randint(R))] = 0
        wrapper = bool(rs.rand() < 0.5)
        desc = {"I": I, "J": J, "K": K, "rank": R, "weights": wk, "degenerate": deg, "dtype": dt, "wrapper": wrapper}

        def slices(w_, A__, B__, C__, P__):
            out = []
            for i in range(I):
                ops = [P__[i], B__, A__[i], C__] + ([w_] if w_ is not None else [])
                out.append(ref.es("jr,rs,s,ks" + (",s" if w_ is not None else "") + "->jk", *ops)[0])
            return out
        before = slices(w, A_, B_, C_, P)
        scale = max(float(np.sum((np.ones(R) if w is None else np.abs(w)) * np.abs(A_[i]) * np.linalg.norm(B_, axis=0) * np.linalg.norm(C_, axis=0))) for i in range(I))
        tup = (w, (A_.copy(), B_.copy(), C_.copy()), [p.copy() for p in P])
        obj = p2.Parafac2Tensor(tup) if wrapper else tup
        ow, (oA, oB, oC), oP = p2.parafac2_normalise(obj)
        after = slices(ow, oA, oB, oC, oP)
        for i in range(I):
            if not dense_check("any", after[i], before[i], scale * 4 + 1e-30, desc, "slice %d changed by parafac2_normalise" % i):
                break
        ctx.count("clause/canonical-form")
        for nm, f in (("A", oA), ("B", oB), ("C", oC)):
            nrm = np.linalg.norm(ref.hp(f), axis=0)
            for r in range(R):
                if not (abs(nrm[r] - 1) <= 50 * eps or (nrm[r] == 0 and ow[r] == 0)):
                    viol("canonical-form", "any", "after parafac2_normalise column %d of %s has norm %r (weight %r)" % (r, nm, nrm[r], ow[r]), desc)
                    break
        ctx.nontriv(desc)
    elif g == "cp_flip_sign":
        shp, R, w, factors, desc = _mk_cp(rs, dt)
        order = len(shp)
        mode = int(rs.randint(order))
        fk = gen.choice(rs, ["default", "default", "sum", "first"])
        wrapper = bool(rs.rand() < 0.5)
        desc.update(dtype=dt, mode=mode, func=fk, wrapper=wrapper)
        cplx = bool(np.dtype(dt) == np.float64 and rs.rand() < 0.15)
        if cplx:
            # complex factors: the "sign" of a summary is its phase; dividing it out of one factor and multiplying it into the receiving
            # one leaves the tensor alone and makes the summaries real and non-negative
            factors = [f + 1j * rs.standard_normal(f.shape) for f in factors]
            desc["complex"] = True
            ctx.count("cp_flip_sign_complex")
        if w is None:
            ctx.count("cp_flip_sign_without_weights")     # (None, factors) is a CP tensor like any other
        func = {"default": None, "sum": (lambda x, axis=0: tl.sum(x, axis=axis)), "first": (lambda x, axis=0: x[0])}[fk]
        before, _, _ = ref.cp_dense(w, factors)
        scale = _cp_scale(w, factors)
        nf = {"default": lambda x: np.mean(x, axis=0), "sum": lambda x: np.sum(x, axis=0), "first": lambda x: x[0]}[fk]
        has_zero = any(np.any(nf(np.asarray(factors[k])) == 0) for k in range(order) if k != mode) or bool(w is not None and np.any(w == 0))
        cls = ("zero-summary" if has_zero else "any") + ("+complex" if cplx else "") + ("+noweights" if w is None else "")
        obj = (None if w is None else w.copy(), [f.copy() for f in factors])
        if wrapper:
            obj = cpm.CPTensor(obj)
        negm = bool(rs.rand() < 0.3)     # the receiving mode counted from the end
        desc["negative_mode"] = negm
        try:
            out = cpm.cp_flip_sign(obj, mode=(mode - order if negm else mode), func=func)
        except TypeError as e:
            viol("raises-TypeError", cls, "cp_flip_sign raised TypeError: %s" % str(e)[:120], desc)
            return
        ow, of = out
        after, _, _ = ref.cp_dense(ow, of)
        dense_check(cls, after, before, scale, desc)
        ctx.count("clause/canonical-form")
        if ow is not None and np.any(np.asarray(ow) < 0):
            viol("canonical-form", cls, "cp_flip_sign left a negative weight %r" % (np.asarray(ow),), desc)
        for k in range(order):
            if k == mode:
                continue
            sm_ = nf(ref.hp(of[k]))
            if cplx:
                if np.any(sm_.real < -1e-12 * (1 + np.abs(sm_))) or np.any(np.abs(sm_.imag) > 1e-9 * (1 + np.abs(sm_))):
                    viol("canonical-form", cls, "cp_flip_sign left a column summary that is not real and non-negative in non-receiving mode %d: %r" % (k, sm_), desc)
                    break
                continue
            # a summary that is zero in the working precision carries no sign (documented: left untouched); recomputed in double it
            # may come out as -1e-16 of the column's size
            if np.any(sm_ < -64 * eps * np.sum(np.abs(ref.hp(of[k])), axis=0)):
                viol("canonical-form", cls, "cp_flip_sign left a negative column summary in non-receiving mode %d" % k, desc)
                break
        ctx.nontriv(desc)
        ctx.sample({"gen": g, "desc": desc}, 2)
    elif g in ("cp_mode_dot", "tucker_mode_dot"):
        order = int(rs.randint(2, 5))
        vec = bool(rs.rand() < 0.5)
        keep_dim = bool(rs.rand() < 0.4)
        if g == "tucker_mode_dot" and vec and not keep_dim:
            order = max(order, 3)  # a Tucker tensor needs >= 2 factors after the contraction (documented limit)
        copy = bool(rs.rand() < 0.5)
        mode = int(rs.randint(order))
        wrapper = bool(rs.rand() < 0.6)
        via_method = wrapper and bool(rs.rand() < 0.5)
        if g == "cp_mode_dot":
            shp, R, w, factors, desc = _mk_cp(rs, dt, order=order)
            dense, absb, _ = ref.cp_dense(w, factors)
            obj = (None if w is None else w.copy(), [f.copy() for f in factors])
            if wrapper:
                obj = cpm.CPTensor(obj)
        else:
            shp, rk = gen.shape(rs, order, 1, 5), gen.shape(rs, order, 1, 4)
            core = gen.arr(rs, rk, dt)
            factors = [gen.arr(rs, [s, r], dt) for s, r in zip(shp, rk)]
            desc = {"shape": shp, "rank": rk}
            dense, absb, _ = ref.tucker_dense(core, factors)
            obj = (core.copy(), [f.copy() for f in factors])
            if wrapper:
                obj = tkm.TuckerTensor(obj)
        M = gen.arr(rs, [shp[mode]] if vec else [int(rs.randint(1, 5)), shp[mode]], dt)
        okind = gen.choice(rs, ["same", "same", "same", "int", "bool", "float64"])
        if okind == "int":      # selection / aggregation matrices are naturally integer or boolean
            M = rs.randint(-2, 3, size=M.shape).astype(np.int64)
        elif okind == "bool":
            M = rs.uniform(size=M.shape) < 0.5
        elif okind == "float64":
            M = ref.hp(M).real.astype(np.float64) if np.dtype(dt).kind == "c" else M.astype(np.float64)
        desc.update(operand_dtype=okind)
        desc.update(dtype=dt, mode=mode, operand="vector" if vec else "matrix", keep_dim=keep_dim, copy=copy, wrapper=wrapper, method=via_method)
        want, _, _ = ref.mode_dot(dense, M, mode)
        # error bound: the same product on the absolute-value contraction of the factors (not on |dense|, which may cancel)
        wabs, _, _ = ref.mode_dot(absb, np.abs(M), mode)
        if vec and keep_dim:
            want, wabs = np.expand_dims(want, mode), np.expand_dims(wabs, mode)
        cls = ("vector" if vec else "matrix") + ("+keep_dim" if (keep_dim and vec) else "") + ("" if wrapper else "+tuple") + ("" if copy else "+inplace") + \
              ("" if okind == "same" else "+" + okind + "-operand")
        fn = cpm.cp_mode_dot if g == "cp_mode_dot" else tkm.tucker_mode_dot
        mode_arg = mode
        if rs.rand() < 0.25:
            mode_arg = mode - order
            cls += "+negmode"
        try:
            if via_method:
                out = obj.mode_dot(M, mode_arg, keep_dim=keep_dim, copy=copy)
            else:
                out = fn(obj, M, mode_arg, keep_dim=keep_dim, copy=copy)
        except Exception as e:  # noqa
            viol("raises-%s" % type(e).__name__, cls, "%s raised %s: %s" % (g, type(e).__name__, str(e)[:200]), desc)
            return
        try:
            if g == "cp_mode_dot":
                ow, of = out
                after, _, _ = ref.cp_dense(ow, [np.asarray(f) for f in of])
                rep_shape = tuple(out.shape) if hasattr(out, "shape") else None
            else:
                oc, of = out
                after, _, _ = ref.tucker_dense(np.asarray(oc), [np.asarray(f) for f in of])
                rep_shape = tuple(out.shape) if hasattr(out, "shape") else None
        except Exception as e:  # noqa: returned object is not a consistent factorised tensor
            viol("inconsistent-result", cls, "%s returned an object that cannot be reconstructed (%s: %s)" % (g, type(e).__name__, str(e)[:150]), desc)
            return
        ctx.count("clause/dense-preserved")
        inner = (R if g == "cp_mode_dot" else int(np.prod(rk)))
        ok, why = tol.formula_close(after, want, wabs, eps, 4 * (shp[mode] + inner + 8))
        if not ok:
            viol("mode-product", cls, "factorised mode product != mode product of the dense reconstruction (got shape %s want %s, err/bound %.3g)" % (np.shape(after), want.shape, why), {"desc": desc, "got": after, "want": want})
        elif rep_shape is not None and rep_shape != tuple(want.shape):
            viol("reported-shape", cls, "result reports shape %s but represents a tensor of shape %s" % (rep_shape, want.shape), desc)
        elif wrapper and not copy and not vec and okind == "same":
            # history: a second size-changing product along the same mode, applied to the object the first one worked on in place
            ctx.count("clause/second-inplace-product")
            M2 = gen.arr(rs, [int(rs.randint(1, 6)), M.shape[0]], dt)
            want2, _, _ = ref.mode_dot(want, M2, mode)
            wabs2, _, _ = ref.mode_dot(wabs, np.abs(M2), mode)
            try:
                out2 = obj.mode_dot(M2, mode_arg, copy=False) if via_method else fn(obj, M2, mode_arg, copy=False)
                after2 = ref.cp_dense(out2[0], [np.asarray(f) for f in out2[1]])[0] if g == "cp_mode_dot" else ref.tucker_dense(np.asarray(out2[0]), [np.asarray(f) for f in out2[1]])[0]
            except Exception as e:  # noqa
                viol("second-inplace-product-raises-%s" % type(e).__name__, cls, "a second in-place mode product (%s -> %s -> %s rows) on the same object raised %s: %s" % (
                    shp[mode], M.shape[0], M2.shape[0], type(e).__name__, str(e)[:150]), desc)
                return
            ok2, why2 = tol.formula_close(after2, want2, wabs2, eps, 8 * (shp[mode] + M.shape[0] + inner + 8))
            if not ok2:
                viol("mode-product", cls + "+second-inplace", "second in-place mode product on the same object is wrong (err/bound %.3g, shapes %s vs %s)" % (why2, np.shape(after2), want2.shape), desc)
        ctx.nontriv(desc)
        ctx.sample({"gen": g, "desc": desc}, 2)
    elif g == "pad_tt_rank":
        order = int(rs.randint(2, 6))
        shp = gen.shape(rs, order, 1, 4)
        ring = bool(rs.rand() < 0.4)
        ranks = [int(rs.randint(1, 4)) for _ in range(order + 1)]
        if ring:
            ranks[-1] = ranks[0]
        else:
            ranks[0] = ranks[-1] = 1
        cores = [gen.arr(rs, [ranks[k], shp[k], ranks[k + 1]], dt) for k in range(order)]
        mixed = bool(rs.rand() < 0.25)
        if mixed:
            # cores of different dtypes (an integer selection core, a real boundary core of a complex train): each core keeps its own
            k0 = int(rs.randint(order))
            cores[k0] = gen.arr(rs, cores[k0].shape, "float64", "int").astype(np.int64) if rs.rand() < 0.5 else gen.arr(rs, cores[k0].shape, "float32")
        npad = int(rs.randint(0, 4))
        desc = {"shape": shp, "rank": ranks, "ring": ring, "n_padding": npad, "dtype": dt, "mixed_core_dtypes": mixed}
        out = ttm.pad_tt_rank(list(cores), n_padding=npad, pad_boundaries=ring)
        if ring:
            before, absb, _ = ref.tr_dense(cores)
            after, _, _ = ref.tr_dense(out)
        else:
            before, absb, _ = ref.tt_dense(cores)
            after, _, _ = ref.tt_dense(out)
        dense_check("ring" if ring else "tt", after, before, float(np.max(absb)) if absb.size else 0.0, desc)
        ctx.count("clause/canonical-form")
        got_r = [o.shape[0] for o in out] + [out[-1].shape[2]]
        exp_r = [r + npad for r in ranks]
        if not ring:
            exp_r[0] = exp_r[-1] = 1
        if got_r != exp_r or [o.shape[1] for o in out] != shp or any(o.dtype != c.dtype for o, c in zip(out, cores)):
            viol("canonical-form", "ring" if ring else "tt", "padded ranks %s, expected %s" % (got_r, exp_r), desc)
        if npad:
            ctx.nontriv(desc)
    elif g == "cp_permute_factors":
        shp, R, w, factors, desc = _mk_cp(rs, dt, degenerate="none", min_size=2)
        if w is None:
            w = np.ones(R, dtype=dt)
        order = len(shp)
        if any(np.any(np.linalg.norm(f, axis=0) == 0) for f in factors) or np.any(w == 0):
            ctx.skip("cp_permute_factors: zero column/weight (metrics reject zero columns, C20)")
            return
        # make columns well separated: orthogonalise mode 0 when possible
        ntens = int(rs.randint(1, 3))
        as_list = bool(ntens > 1 or rs.rand() < 0.5)
        ref_cp = cpm.CPTensor((w.copy(), [f.copy() for f in factors]))
        tensors, perms = [], []
        for t in range(ntens):
            perm = rs.permutation(R)
            scal = [rs.uniform(0.5, 2, R) * rs.choice([-1, 1], R) for _ in range(order)]
            fs = [(f[:, perm] * s).astype(dt) for f, s in zip(factors, scal)]
            ws = (w[perm] / np.prod(scal, axis=0)).astype(dt)
            tensors.append(cpm.CPTensor((ws, fs)))
            perms.append(perm)
        # only well-posed when the reference columns are not (nearly) collinear in the product-of-cosines sense
        Cc = np.ones((R, R))
        for f in factors:
            fn_ = ref.hp(f) / np.maximum(np.linalg.norm(ref.hp(f), axis=0), 1e-300)
            Cc = Cc * np.abs(fn_.T @ fn_)
        off = Cc - np.diag(np.diag(Cc))
        if R > 1 and np.max(off) > 0.9:
            ctx.skip("cp_permute_factors: reference components nearly collinear (matching not unique)")
            return
        desc.update(dtype=dt, n_tensors=ntens, as_list=as_list)
        befores = [ref.cp_dense(t.weights, t.factors)[0] for t in tensors]
        arg = list(tensors) if as_list else tensors[0]
        out, permutation = cpm.cp_permute_factors(ref_cp, arg)
        outs = out if isinstance(out, list) else [out]
        ctx.count("clause/canonical-form")
        if len(outs) != ntens or len(permutation) != ntens:
            viol("canonical-form", "any", "cp_permute_factors returned %d tensors / %d permutations for %d inputs" % (len(outs), len(permutation), ntens), desc)
            return
        for t in range(ntens):
            after = ref.cp_dense(outs[t].weights, outs[t].factors)[0]
            dense_check("any", after, befores[t], _cp_scale(w, factors), desc, "tensor %d changed by cp_permute_factors" % t)
            col = np.asarray(permutation[t])
            # the returned permutation reproduces the result
            for k in range(order):
                if not np.array_equal(np.asarray(outs[t].factors[k]), np.asarray(tensors[t].factors[k])[:, col]):
                    viol("permutation-reproduces", "any", "returned permutation does not reproduce the permuted factors", desc)
                    break
            # aligned: component r of the result is collinear with component r of the reference in every mode
            for k in range(order):
                a = ref.hp(outs[t].factors[k])
                b = ref.hp(factors[k])
                cosd = np.abs(np.sum(a * b, axis=0)) / (np.linalg.norm(a, axis=0) * np.linalg.norm(b, axis=0))
                if np.any(cosd < 1 - 1e-4):
                    viol("aligned", "any", "after cp_permute_factors component(s) %s of mode %d are not aligned with the reference (cosines %s)" % (np.where(cosd < 1 - 1e-4)[0].tolist(), k, cosd), desc)
                    break
        if R > 1:
            ctx.nontriv(desc)
    elif g == "from_CPTensor":
        shp, R, w, factors, desc = _mk_cp(rs, dt, order=3, degenerate=gen.choice(rs, ["none", "none", "zeroweight"]))
        if shp[1] < R:
            shp[1] = R
            factors[1] = gen.arr(rs, [R, R], dt)
        desc.update(dtype=dt, shape=shp)
        before, _, _ = ref.cp_dense(w, factors)
        scale = _cp_scale(w, factors)
        wrapper = bool(rs.rand() < 0.5)
        obj = (w, [f.copy() for f in factors])
        if wrapper:
            obj = cpm.CPTensor(obj)
        out = p2.Parafac2Tensor.from_CPTensor(obj)
        ow, (oA, oB, oC), oP = out
        after = np.zeros_like(before)
        for i in range(shp[0]):
            ops = [oP[i], oB, oA[i], oC] + ([ow] if ow is not None else [])
            after[i] = ref.es("jr,rs,s,ks" + (",s" if ow is not None else "") + "->jk", *ops)[0]
        dense_check("any", after, before, scale * 4, desc)
        ctx.count("clause/canonical-form")
        if len(oP) != shp[0]:
            viol("canonical-form", "any", "from_CPTensor produced %d projections for %d slices" % (len(oP), shp[0]), desc)
        for p_ in oP:
            ph = ref.hp(p_)
            if np.max(np.abs(ph.T @ ph - np.eye(R))) > 100 * eps:
                viol("canonical-form", "any", "from_CPTensor projection is not orthonormal", desc)
                break
        ctx.nontriv(desc)
    elif g == "svd_compress" and case["idx"] % 3 == 0:
        # generic (noisy, full-rank) slices of any aspect ratio, the first one possibly with fewer rows than columns: with a zero
        # threshold and max_rank at least the number of columns no singular value is dropped, so loading @ score is the slice
        I, K = int(rs.randint(2, 5)), int(rs.randint(2, 6))
        J = [int(rs.randint(1, K + 4)) for _ in range(I)]
        if rs.rand() < 0.5:
            J[0] = int(rs.randint(1, K))
        Xs = [gen.arr(rs, [j, K], dt) for j in J]
        max_rank = gen.choice(rs, [None, K, K + 2, max(J)])
        thr0, kind0 = 0.0, "generic"
        pick = rs.rand()
        if pick < 0.2:
            # singular values exactly ON the bound: rank-one slices compressed with threshold 1 keep their one singular value
            Xs = [np.outer(gen.arr(rs, [j], dt), gen.arr(rs, [K], dt)).astype(dt) for j in J]
            thr0, kind0 = 1.0, "rank-one-threshold-1"
        elif pick < 0.4:
            # an all-zero slice (an empty sample) among generic ones, any threshold: it has nothing to lose
            z = int(rs.randint(I))
            Xs[z] = np.zeros_like(Xs[z])
            thr0, kind0 = float(gen.choice(rs, [0.0, 1e-12, 1e-3])), "zero-slice"
            if thr0 > 0:
                # with a positive threshold the other slices must not lose anything either: make them exactly rank one
                Xs = [x if i_ == z else np.outer(gen.arr(rs, [x.shape[0]], dt), gen.arr(rs, [K], dt)).astype(dt) for i_, x in enumerate(Xs)]
        desc = {"I": I, "J": J, "K": K, "max_rank": max_rank, "dtype": dt, "slices": kind0, "threshold": thr0}
        ctx.count("svd_compress_slices/" + kind0)
        scores, loadings = pre.svd_compress_tensor_slices([x.copy() for x in Xs], compression_threshold=thr0, max_rank=max_rank)
        for i in range(I):
            rec = ref.hp(scores[i]) if loadings[i] is None else ref.hp(loadings[i]) @ ref.hp(scores[i])
            ctx.count("clause/dense-preserved")
            ok, why = (rec.shape == Xs[i].shape, "shape %s" % (rec.shape,))
            if ok:
                ok, why = _close(rec, Xs[i], float(np.linalg.norm(Xs[i])), eps, c=2e3)
            if not ok:
                viol("dense-preserved", kind0 + "-slices", "loading @ score != slice %d (shape %s, max_rank %s) although no singular value may be dropped: %s" % (
                    i, Xs[i].shape, max_rank, why), desc)
                return
        ctx.nontriv(desc)
    elif g == "svd_compress":
        I, R, K = int(rs.randint(2, 5)), int(rs.randint(1, 4)), int(rs.randint(1, 5))
        R = min(R, K)
        J = [int(rs.randint(R, R + 6)) for _ in range(I)]
        A_ = gen.arr(rs, [I, R], dt, "pos")
        B_ = (gen.arr(rs, [R, R], dt) + 2 * np.eye(R)).astype(dt)
        C_ = gen.orth(rs, K, R, dt) if rs.rand() < 0.5 else gen.arr(rs, [K, R], dt)
        P = [gen.orth(rs, j, R, dt) for j in J]
        w = None if rs.rand() < 0.5 else rs.uniform(0.5, 2, R).astype(dt)
        thr = gen.choice(rs, [0.0, 0.0, 1e-12 if dt == "float64" else 1e-6])
        max_rank = gen.choice(rs, [None, None, K, K + 2, max(R, 1)])
        svd = gen.choice(rs, ["truncated_svd", "truncated_svd", "symeig_svd"])
        desc = {"I": I, "J": J, "K": K, "rank": R, "threshold": thr, "max_rank": max_rank, "svd": svd, "dtype": dt}
        Xs = []
        for i in range(I):
            ops = [P[i], B_, A_[i], C_] + ([w] if w is not None else [])
            Xs.append(ref.es("jr,rs,s,ks" + (",s" if w is not None else "") + "->jk", *ops)[0].astype(dt))
        # only keep cases where the slices are numerically of rank exactly R with a clear gap (so nothing real is discarded)
        for X in Xs:
            sv = np.linalg.svd(ref.hp(X), compute_uv=False)
            if sv[min(R, len(sv)) - 1] < 1e-3 * sv[0]:
                ctx.skip("svd_compress: slice not well conditioned at its rank")
                return
        if svd == "symeig_svd":
            tol_c = 200.0 / np.sqrt(eps)  # Gram-based SVD: sqrt(eps) relative accuracy is inherent
        else:
            tol_c = 2e3
        scores, loadings = pre.svd_compress_tensor_slices([x.copy() for x in Xs], compression_threshold=thr, max_rank=max_rank, svd=svd)
        ctx.count("clause/canonical-form")
        Pc = []
        for i in range(I):
            Sc = ref.hp(scores[i])
            if loadings[i] is None:
                rec = Sc
                Pc.append(P[i])
            else:
                Ld = ref.hp(loadings[i])
                # orthonormality of the loadings is asserted for the LAPACK method only: symeig_svd's vectors beyond the
                # numerical rank are a C05 matter (known finding there) and do not affect loading @ score
                if svd == "truncated_svd" and np.max(np.abs(Ld.T @ Ld - np.eye(Ld.shape[1]))) > tol_c * eps:
                    viol("canonical-form", svd, "loading matrix %d is not orthonormal" % i, desc)
                    return
                rec = Ld @ Sc
                Pc.append((Ld.T @ ref.hp(P[i])).astype(dt))
            ok, why = _close(rec, Xs[i], float(np.linalg.norm(Xs[i])), eps, c=tol_c)
            ctx.count("clause/dense-preserved")
            if not ok:
                viol("dense-preserved", svd, "loading @ score != slice %d although no non-zero singular value was discarded: %s" % (i, why), desc)
                return
        # decompress a PARAFAC2 model of the compressed slices: must represent the original slices
        try:
            model_c = p2.Parafac2Tensor((w, (A_, B_, C_), Pc))
        except ValueError:
            ctx.skip("svd_compress: compressed projections not orthonormal to 1e-5 (symeig accuracy)")
            return
        try:
            dec = pre.svd_decompress_parafac2_tensor(model_c, loadings)
        except ValueError:
            if svd == "symeig_svd":
                ctx.skip("svd_compress: decompressed projections not orthonormal to 1e-5 (symeig accuracy)")
                return
            raise
        dw, (dA, dB, dC), dP = dec
        for i in range(I):
            ops = [dP[i], dB, dA[i], dC] + ([dw] if dw is not None else [])
            got = ref.es("jr,rs,s,ks" + (",s" if dw is not None else "") + "->jk", *ops)[0]
            ctx.count("clause/dense-preserved")
            ok, why = _close(got, Xs[i], float(np.linalg.norm(Xs[i])), eps, c=tol_c)
            if not ok:
                viol("dense-preserved", svd, "decompressed PARAFAC2 slice %d != original slice: %s" % (i, why), desc)
                return
        ctx.nontriv(desc)
        ctx.sample({"gen": g, "desc": desc}, 1)
    else:
        raise ValueError(g)
