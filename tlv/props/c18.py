"""C18 — results stay in the numeric context (dtype) of the input.

dtype tracer: every floating/complex ndarray or NumPy scalar reachable from the value returned by an entry point must
have the floating dtype of the call's array inputs (float32 -> float32, float64 -> float64, complex128 -> complex128;
mathematically real outputs of complex inputs — singular values — may be the matching real dtype).
"""
import numpy as np

from ..core import gen, ref, decomp

ID = "C18"
RULE = ("every entry point of the table x {float32, float64} (x complex128 where the code handles conjugation) x seeded shapes and "
        "option sets; non-trivial = dtype differs from the library default float64 (i.e. float32 / complex128 runs); distinct = distinct "
        "(entry, dtype, shapes, options)")
ASSUMPTIONS = ["documented exemptions: leverage-score distributions are float64; index/count outputs are integers; Python floats are not arrays",
               "complex128 input: singular values / norms may be float64", "NumPy backend only"]
CASE_TIMEOUT = {"quick": 120, "thorough": 120}

TENALG = ["mode_dot", "multi_mode_dot", "kronecker", "khatri_rao", "inner", "outer", "batched_outer", "tensordot", "mttkrp", "higher_order_moment"]
CONV = ["cp_to_tensor", "cp_to_unfolded", "cp_norm", "tucker_to_tensor", "tt_to_tensor", "tr_to_tensor", "tt_matrix_to_tensor", "parafac2_to_tensor",
        "cp_normalize", "tucker_normalize", "cp_flip_sign", "cp_mode_dot", "tucker_mode_dot", "pad_tt_rank", "cp_permute_factors", "parafac2_normalise"]
SVD = ["truncated_svd", "symeig_svd", "randomized_svd", "svd_nonneg"]
DECOMP = ["parafac", "parafac_random", "parafac_normalize", "parafac_sparsity", "nn_parafac", "nn_parafac_hals", "constrained_nonneg", "constrained_simplex",
          "constrained_l1", "constrained_unimodal", "constrained_smooth", "randomised_parafac", "tucker", "tucker_random", "nn_tucker", "nn_tucker_hals", "nn_tucker_hals_as",
          "parafac2", "parafac2_nn", "tr_als", "tr_als_sampled", "cmtf", "tensor_train", "tensor_train_matrix", "tensor_ring", "robust_pca", "cp_power", "symmetric_power",
          "masked_parafac", "masked_nn_parafac", "masked_tucker", "masked_robust_pca", "masked_svd", "masked_cp_to_tensor", "parafac_linesearch_long"]
PROX = ["prox_non_negative", "soft_thresholding", "l2_prox", "l2_square_prox", "smoothness_prox", "simplex_prox", "soft_sparsity_prox", "monotonicity_prox",
        "unimodality_prox", "hard_thresholding", "normalized_sparsity_prox", "prox_normalize", "svd_thresholding", "procrustes"]
SOLVERS = ["hals_nnls", "hals_nnls_cold", "fista", "active_set_nnls", "active_set_restart", "admm", "admm_constrained"]
REG = ["cp_regressor", "tucker_regressor", "cp_plsr"]
OTHER = ["np_scalar_hyper", "random_cp", "random_tucker", "random_tt", "random_tr", "random_parafac2", "svd_compress", "metrics", "huge_units"]
# public entry points found uncovered by an audit of the per-entry call counts (all keep the data dtype on the reference tree)
API = ["tt_cross", "tt_oi", "partial_tucker", "initialize_cp", "initialize_tucker", "initialize_constrained", "initialize_parafac2", "cp_lstsq_grad",
       "p2_projections", "sample_khatri_rao", "random_tensor", "random_tt_matrix", "svd_decompress", "error_metrics", "similarity_metrics", "entropy",
       "decomposition_classes", "wrapper_methods"]
ENTRY = TENALG + CONV + SVD + DECOMP + PROX + SOLVERS + REG + OTHER + API
EINSUM_TOO = set(TENALG) | {"cp_to_tensor", "cp_to_unfolded", "tucker_to_tensor", "tt_to_tensor", "tr_to_tensor", "tt_matrix_to_tensor", "parafac", "parafac_random", "nn_parafac",
                            "nn_parafac_hals", "constrained_nonneg", "constrained_l1", "tucker", "tucker_random", "nn_tucker", "masked_parafac", "cp_lstsq_grad", "cp_regressor",
                            "tucker_regressor", "cp_plsr", "partial_tucker", "tr_als"}
COMPLEX_OK = set(TENALG) - {"higher_order_moment"} | {"cp_to_tensor", "cp_to_unfolded", "tucker_to_tensor", "tt_to_tensor", "tr_to_tensor", "tt_matrix_to_tensor", "truncated_svd", "tensor_train", "tucker"}


def plan(tier, seed):
    n = len(ENTRY) * (48 if tier == "quick" else 600)
    return [{"gen": ENTRY[i % len(ENTRY)], "idx": i, "seed": seed} for i in range(n)]


def floors(tier):
    f = {"checked/%s" % e: 10 for e in ENTRY}
    f.update({"returned/%s" % e: 8 for e in ENTRY})
    f.update({"arrays_traced": 5000, "dtype/float32": 600, "dtype/float64": 300, "dtype/complex128": 50})
    return f


def bounds(tier):
    return {"entry_points": len(ENTRY), "dtypes": ["float32", "float64", "complex128 (subset)"]}


def trace(o, out, path="ret"):
    from tensorly.cp_tensor import CPTensor
    from tensorly.tucker_tensor import TuckerTensor
    from tensorly.parafac2_tensor import Parafac2Tensor
    from tensorly.tt_tensor import TTTensor
    from tensorly.tr_tensor import TRTensor
    from tensorly.tt_matrix import TTMatrix
    if isinstance(o, np.ndarray):
        out.append((path, o.dtype, "array"))
    elif isinstance(o, np.generic):
        out.append((path, o.dtype, "scalar"))
    elif isinstance(o, (CPTensor, TuckerTensor, Parafac2Tensor)):
        for i, x in enumerate(o):
            trace(x, out, "%s[%d]" % (path, i))
    elif isinstance(o, (TTTensor, TRTensor, TTMatrix)):
        for i, x in enumerate(o.factors):
            trace(x, out, "%s.factors[%d]" % (path, i))
    elif isinstance(o, (list, tuple)):
        for i, x in enumerate(o):
            trace(x, out, "%s[%d]" % (path, i))
    elif isinstance(o, dict):
        for k in o:
            trace(o[k], out, "%s[%r]" % (path, k))


def build(entry, rs, dt):
    import tensorly as tl
    from tensorly import tenalg, decomposition as D, random as R
    from tensorly.tenalg import proximal as P, svd_interface
    from tensorly.solvers import nnls, admm as admm_mod
    from tensorly import cp_tensor as cpm, tucker_tensor as tkm, tt_tensor as ttm, tr_tensor as trm, tt_matrix as ttmm, parafac2_tensor as p2m
    A = lambda shape, kind="gauss": gen.arr(rs, shape, dt, kind)
    rdt = {"float32": "float32", "float64": "float64", "complex128": "float64"}[dt]
    order = int(rs.randint(2, 5))
    shp = gen.shape(rs, order, 2, 5)
    R_ = int(rs.randint(1, 4))
    X = A(shp)
    Xp = np.abs(X).astype(rdt) if dt != "complex128" else None
    fs = [A([s, R_]) for s in shp]
    w = gen.arr(rs, [R_], rdt, "gauss")
    real_ok = []
    it = int(rs.randint(1, 4))
    sd = int(rs.randint(0, 2 ** 31 - 1))
    if entry == "mode_dot":
        m = int(rs.randint(order))
        return lambda: tenalg.mode_dot(X, A([3, shp[m]]) if rs.rand() < 0.5 else A([shp[m]]), m), real_ok
    if entry == "multi_mode_dot":
        return lambda: tenalg.multi_mode_dot(X, [A([2, s]) for s in shp]), real_ok
    if entry == "kronecker":
        return lambda: tenalg.kronecker([A([2, 3]), A([3, 2])]), real_ok
    if entry == "khatri_rao":
        return lambda: tenalg.khatri_rao(list(fs), weights=w if rs.rand() < 0.5 else None), real_ok
    if entry == "inner":
        return lambda: tenalg.inner(X, A(shp), n_modes=None if rs.rand() < 0.5 else order), real_ok
    if entry == "outer":
        return lambda: tenalg.outer([A([2, 3]), A([2])]), real_ok
    if entry == "batched_outer":
        return lambda: tenalg.batched_outer([A([3, 2]), A([3, 4])]), real_ok
    if entry == "tensordot":
        return lambda: tenalg.tensordot(X, A(shp), modes=([0], [0])), real_ok
    if entry == "mttkrp":
        return lambda: tenalg.unfolding_dot_khatri_rao(X, (w if rs.rand() < 0.5 else None, list(fs)), int(rs.randint(order))), real_ok
    if entry == "higher_order_moment":
        return lambda: tenalg.higher_order_moment(A([4, 3]), int(rs.randint(1, 4))), real_ok
    if entry == "cp_to_tensor":
        return lambda: cpm.cp_to_tensor((w, list(fs))), real_ok
    if entry == "cp_to_unfolded":
        return lambda: cpm.cp_to_unfolded((w if rs.rand() < 0.5 else None, list(fs)), int(rs.randint(order))), real_ok
    if entry == "cp_norm":
        return lambda: cpm.cp_norm((w, list(fs))), real_ok
    if entry == "tucker_to_tensor":
        rk = gen.shape(rs, order, 1, 3)
        return lambda: tkm.tucker_to_tensor((A(rk), [A([s, r]) for s, r in zip(shp, rk)])), real_ok
    if entry in ("tt_to_tensor", "tr_to_tensor", "pad_tt_rank"):
        rk = [int(rs.randint(1, 4)) for _ in range(order + 1)]
        if entry != "tr_to_tensor":
            rk[0] = rk[-1] = 1
        else:
            rk[-1] = rk[0]
        cores = [A([rk[k], shp[k], rk[k + 1]]) for k in range(order)]
        if entry == "tt_to_tensor":
            return lambda: ttm.tt_to_tensor(cores), real_ok
        if entry == "tr_to_tensor":
            return lambda: trm.tr_to_tensor(cores), real_ok
        return lambda: ttm.pad_tt_rank(cores, n_padding=2), real_ok
    if entry == "tt_matrix_to_tensor":
        cores = [A([1, 2, 3, 2]), A([2, 2, 2, 1])]
        be = gen.choice(rs, ["core", "einsum"])

        def f():
            prev = tenalg.get_backend()
            tenalg.set_backend(be)
            try:
                return ttmm.tt_matrix_to_tensor(cores)
            finally:
                tenalg.set_backend(prev)
        return f, real_ok
    if entry in ("parafac2_to_tensor", "parafac2_normalise"):
        I, K = 3, 3
        tup = (w, (A([I, R_]), A([R_, R_]), A([K, R_])), [gen.orth(rs, int(rs.randint(R_, R_ + 3)), R_, dt) for _ in range(I)])
        if entry == "parafac2_to_tensor":
            return lambda: [p2m.parafac2_to_tensor(tup), p2m.parafac2_to_slices(tup)], real_ok
        return lambda: p2m.parafac2_normalise(tup), real_ok
    if entry == "cp_normalize":
        return lambda: cpm.cp_normalize((w if rs.rand() < 0.5 else None, list(fs))), real_ok
    if entry == "tucker_normalize":
        rk = gen.shape(rs, order, 1, 3)
        return lambda: tkm.tucker_normalize((A(rk), [A([s, r]) for s, r in zip(shp, rk)])), real_ok
    if entry == "cp_flip_sign":
        return lambda: cpm.cp_flip_sign((w.copy(), [f.copy() for f in fs]), mode=int(rs.randint(order))), real_ok
    if entry == "cp_mode_dot":
        m = int(rs.randint(order))
        return lambda: cpm.cp_mode_dot(cpm.CPTensor((w.copy(), [f.copy() for f in fs])), A([2, shp[m]]) if rs.rand() < 0.5 else A([shp[m]]), m, copy=True), real_ok
    if entry == "tucker_mode_dot":
        rk = gen.shape(rs, order, 1, 3)
        m = int(rs.randint(order))
        return lambda: tkm.tucker_mode_dot((A(rk), [A([s, r]) for s, r in zip(shp, rk)]), A([2, shp[m]]), m, copy=True), real_ok
    if entry == "cp_permute_factors":
        t1 = cpm.CPTensor((np.abs(w) + 0.1, [f.copy() for f in fs]))
        t2 = cpm.CPTensor((np.abs(w) + 0.1, [f[:, ::-1].copy() for f in fs]))
        return lambda: cpm.cp_permute_factors(t1, t2)[0], real_ok
    if entry in ("truncated_svd", "symeig_svd", "randomized_svd", "svd_nonneg"):
        M = A([int(rs.randint(2, 8)), int(rs.randint(2, 8))])
        k = int(rs.randint(1, 5))
        if entry == "svd_nonneg":
            return lambda: svd_interface(np.abs(M), n_eigenvecs=k, non_negative=gen.choice(rs, [True, "nndsvd"])), real_ok
        return lambda: svd_interface(M, method=entry, n_eigenvecs=k, **({"random_state": sd} if entry == "randomized_svd" else {})), ["ret[1]"]
    if entry in ("parafac", "parafac_random", "parafac_normalize", "parafac_sparsity"):
        o = {"parafac": {"init": "svd"}, "parafac_random": {"init": "random"}, "parafac_normalize": {"normalize_factors": True, "linesearch": bool(rs.rand() < 0.5)},
             "parafac_sparsity": {"sparsity": 0.2}}[entry]
        return lambda: D.parafac(X, R_, n_iter_max=it + (7 if o.get("linesearch") else 0), random_state=sd, return_errors=True, tol=1e-9, **o), real_ok
    if entry == "parafac_linesearch_long":
        # hundreds of sweeps: the line search goes through its whole life (accepted jumps, runs of failures after which the
        # acceleration exponent is reduced, accepted jumps again)
        cls_ = gen.choice(rs, ["noisy-lowrank", "noisy-lowrank", "generic"])
        X3 = A(gen.shape(rs, 3, 3, 7))
        if cls_ == "noisy-lowrank":
            r0 = int(rs.randint(2, 4))
            X3 = (ref.cp_dense(None, [rs.standard_normal((s_, r0)) for s_ in X3.shape])[0] + 0.05 * rs.standard_normal(X3.shape)).astype(dt)
        n_long = int(gen.choice(rs, [120, 300]))
        if rs.rand() < 0.3:
            return lambda: D.CP(R_ + 1, n_iter_max=n_long, tol=0, linesearch=True, random_state=sd, init="random").fit_transform(X3), real_ok
        return lambda: D.parafac(X3, R_ + 1, n_iter_max=n_long, tol=0, linesearch=True, random_state=sd, init=gen.choice(rs, ["random", "svd"]), return_errors=True), real_ok
    if entry == "huge_units":
        # finite data in units so large (or small) that squares leave the range of the dtype: results may be inf/0, the dtype stays
        unit = float(gen.choice(rs, [4e19, 1e25, 1e-30])) if dt == "float32" else float(gen.choice(rs, [1e160, 1e-170]))
        Xh_ = (X * np.asarray(unit, dtype=rdt)).astype(dt)
        fh_ = [(f_ * np.asarray(unit, dtype=rdt)).astype(dt) for f_ in fs]
        rk = gen.shape(rs, order, 1, 3)
        return lambda: [tl.norm(Xh_), tl.norm(Xh_, axis=0), tl.norm(Xh_, 1), cpm.cp_normalize((None, [f_.copy() for f_ in fh_])), cpm.cp_norm((None, fh_)),
                        tkm.tucker_normalize((A(rk) * np.asarray(unit, dtype=rdt), [A([s, r]) for s, r in zip(shp, rk)])), P.l2_prox(Xh_.copy(), 0.5),
                        P.normalized_sparsity_prox(Xh_.reshape(-1).copy(), 2)], real_ok
    if entry == "nn_parafac":
        return lambda: D.non_negative_parafac(Xp, R_, n_iter_max=it, init=gen.choice(rs, ["svd", "random"]), random_state=sd, return_errors=True, normalize_factors=bool(rs.rand() < 0.5)), real_ok
    if entry == "nn_parafac_hals":
        return lambda: D.non_negative_parafac_hals(Xp, R_, n_iter_max=it, init=gen.choice(rs, ["svd", "random"]), random_state=sd, return_errors=True,
                                                   sparsity_coefficients=[0.1] * order if rs.rand() < 0.3 else None), real_ok
    if entry.startswith("constrained_"):
        X3 = gen.arr(rs, gen.shape(rs, 3, 2, 5), dt, "gauss")
        o = {"constrained_nonneg": {"non_negative": True}, "constrained_simplex": {"simplex": 2.0}, "constrained_l1": {"l1_reg": 0.05},
             "constrained_unimodal": {"unimodality": True}, "constrained_smooth": {"smoothness": 0.1}}[entry]
        return lambda: D.constrained_parafac(X3, R_, n_iter_max=it, init=gen.choice(rs, ["svd", "random"]), random_state=sd, return_errors=True, **o), real_ok
    if entry == "randomised_parafac":
        return lambda: D.randomised_parafac(X, R_, 10, n_iter_max=it, random_state=sd, return_errors=True, max_stagnation=0), real_ok
    if entry in ("tucker", "tucker_random"):
        rk = [int(rs.randint(1, min(s, 3) + 1)) for s in shp]
        return lambda: D.tucker(X, rk, n_iter_max=it, init="svd" if entry == "tucker" else "random", random_state=sd, return_errors=True), real_ok
    if entry in ("nn_tucker", "nn_tucker_hals", "nn_tucker_hals_as"):
        rk = [int(rs.randint(1, min(s, 3) + 1)) for s in shp]
        if entry == "nn_tucker":
            return lambda: D.non_negative_tucker(Xp, rk, n_iter_max=it, init=gen.choice(rs, ["svd", "random"]), random_state=sd, return_errors=True), real_ok
        return lambda: D.non_negative_tucker_hals(Xp, rk, n_iter_max=it, init=gen.choice(rs, ["svd", "random"]), random_state=sd, return_errors=True,
                                                  algorithm="fista" if entry == "nn_tucker_hals" else "active_set"), real_ok
    if entry in ("parafac2", "parafac2_nn", "svd_compress"):
        I, K = 3, int(rs.randint(3, 6))
        r2 = int(rs.randint(1, min(3, K) + 1))
        sl = [A([int(rs.randint(r2 + 1, 7)), K]) for _ in range(I)]
        if entry == "svd_compress":
            from tensorly import preprocessing as pre
            return lambda: pre.svd_compress_tensor_slices(sl, compression_threshold=0.0), real_ok
        o = {"nn_modes": [0, 2]} if entry == "parafac2_nn" else {}
        if o:
            sl = [np.abs(s) for s in sl]
        return lambda: D.parafac2(sl, r2, n_iter_max=it + 6, init=gen.choice(rs, ["random", "svd"]), random_state=sd, return_errors=True, **o), real_ok
    if entry in ("tr_als", "tr_als_sampled"):
        X3 = gen.arr(rs, gen.shape(rs, 3, 2, 4), dt, "gauss")
        rk = [2, 1, 2, 2]
        if entry == "tr_als":
            return lambda: D.tensor_ring_als(X3, rk, n_iter_max=it, random_state=sd, ls_solve=gen.choice(rs, ["lstsq", "normal_eq"])), real_ok
        return lambda: D.tensor_ring_als_sampled(X3, rk, n_samples=8, n_iter_max=it, random_state=sd, uniform_sampling=bool(rs.rand() < 0.5),
                                                 randomized_error=bool(rs.rand() < 0.3)), real_ok
    if entry == "cmtf":
        from tensorly.decomposition._cmtf_als import coupled_matrix_tensor_3d_factorization as cm
        X3 = gen.arr(rs, gen.shape(rs, 3, 3, 5), dt, "gauss")
        M = gen.arr(rs, [X3.shape[0], 3], dt, "gauss")
        return lambda: cm(X3, M, min(R_, 3), n_iter_max=it, normalize_factors=bool(rs.rand() < 0.5)), real_ok
    if entry == "tensor_train":
        return lambda: D.tensor_train(X, int(rs.randint(1, 4))), real_ok
    if entry == "tensor_train_matrix":
        return lambda: D.tensor_train_matrix(A([2, 3, 3, 2]), 3), real_ok
    if entry == "tensor_ring":
        return lambda: D.tensor_ring(X, [1] + [2] * (order - 1) + [1], mode=0), real_ok
    if entry == "robust_pca":
        return lambda: D.robust_pca(X, n_iter_max=3, reg_E=0.5, random_state=sd) if False else D.robust_pca(X, n_iter_max=3, reg_E=0.5), real_ok
    if entry.startswith("masked_"):
        # the observation mask is documented as an array of booleans: whatever its dtype, the data decide the precision
        mk = gen.choice(rs, ["bool", "bool", "int64", "float64", "same"])
        Xm = Xp if entry == "masked_nn_parafac" else X
        mask = (rs.uniform(size=Xm.shape) < 0.8)
        mask = mask.astype(Xm.real.dtype if mk == "same" else mk)
        rk = [int(rs.randint(1, min(s_, 3) + 1)) for s_ in shp]
        if entry == "masked_parafac":
            ini = gen.choice(rs, ["svd", "random"])
            return lambda: D.parafac(Xm, R_, n_iter_max=it, init=ini, mask=mask, random_state=sd, return_errors=True), real_ok
        if entry == "masked_nn_parafac":
            ini = gen.choice(rs, ["svd", "random"])
            return lambda: D.non_negative_parafac(Xm, R_, n_iter_max=it, init=ini, mask=mask, random_state=sd, return_errors=True), real_ok
        if entry == "masked_tucker":
            ini = gen.choice(rs, ["svd", "random"])
            return lambda: D.tucker(Xm, rk, n_iter_max=it, init=ini, mask=mask, random_state=sd), real_ok
        if entry == "masked_robust_pca":
            return lambda: D.robust_pca(Xm, mask=mask, n_iter_max=3, reg_E=0.5), real_ok
        if entry == "masked_svd":
            M2 = Xm.reshape(Xm.shape[0], -1)
            return lambda: svd_interface(M2, n_eigenvecs=int(rs.randint(1, min(M2.shape) + 1)), mask=mask.reshape(M2.shape)), ["ret[1]"]
        if mk in ("int64", "float64"):
            mask = mask.astype(bool)
        return lambda: cpm.cp_to_tensor((w, list(fs)), mask=mask), real_ok
    if entry == "cp_power":
        return lambda: D.parafac_power_iteration(X, R_, n_repeat=2, n_iteration=2), real_ok
    if entry == "symmetric_power":
        Xs = A([3, 3, 3])
        Xs = (Xs + Xs.transpose(1, 0, 2) + Xs.transpose(2, 1, 0) + Xs.transpose(0, 2, 1) + Xs.transpose(1, 2, 0) + Xs.transpose(2, 0, 1)) / np.asarray(6, dtype=dt)
        return lambda: D.symmetric_parafac_power_iteration(Xs, 2, n_repeat=2, n_iteration=2), real_ok
    if entry in PROX:
        v = A([int(rs.randint(2, 7)), int(rs.randint(1, 4))]) if rs.rand() < 0.6 else A([int(rs.randint(2, 7))])
        # parameter regimes select code paths: ordinary, total shrinkage (everything is thresholded away), no shrinkage at all
        regime = gen.choice(rs, ["ordinary", "ordinary", "total", "none"])
        t = {"ordinary": 0.3, "total": 1e6, "none": 1e-12}[regime]
        kk = {"ordinary": 2, "total": 1, "none": 10 ** 6}[regime]
        rad = {"ordinary": 1.0, "total": 1e-6, "none": 1e6}[regime]
        table = {"prox_non_negative": lambda: P.proximal_operator(v, non_negative=True), "soft_thresholding": lambda: P.soft_thresholding(v, t),
                 "l2_prox": lambda: P.l2_prox(v, t), "l2_square_prox": lambda: P.l2_square_prox(v, t), "smoothness_prox": lambda: P.smoothness_prox(v, t),
                 "simplex_prox": lambda: P.simplex_prox(v, rad), "soft_sparsity_prox": lambda: P.soft_sparsity_prox(v, rad), "monotonicity_prox": lambda: P.monotonicity_prox(v),
                 "unimodality_prox": lambda: P.unimodality_prox(v), "hard_thresholding": lambda: P.hard_thresholding(v, kk), "normalized_sparsity_prox": lambda: P.normalized_sparsity_prox(v, kk),
                 "prox_normalize": lambda: P.proximal_operator(v, normalize=True), "svd_thresholding": lambda: P.svd_thresholding(v.reshape(v.shape[0], -1), t),
                 "procrustes": lambda: P.procrustes(v.reshape(v.shape[0], -1))}
        return table[entry], real_ok
    if entry in SOLVERS:
        n, k = int(rs.randint(1, 6)), int(rs.randint(1, 4))
        U = np.abs(A([n + 2, n])) + np.eye(n + 2, n, dtype=dt)
        M = A([n + 2, k])
        UtU, UtM = (U.T @ U).astype(dt), (U.T @ M).astype(dt)
        if entry == "hals_nnls":
            return lambda: nnls.hals_nnls(UtM, UtU, V=np.abs(A([n, k])), n_iter_max=20, sparsity_coefficient=0.1 if rs.rand() < 0.5 else None), real_ok
        if entry == "hals_nnls_cold":
            return lambda: nnls.hals_nnls(UtM, UtU, n_iter_max=20), real_ok
        if entry == "fista":
            return lambda: nnls.fista(UtM, UtU, x=None if rs.rand() < 0.5 else np.abs(A([n, k])), n_iter_max=30, sparsity_coef=0.1 if rs.rand() < 0.5 else 0), real_ok
        if entry == "active_set_nnls":
            return lambda: nnls.active_set_nnls(UtM[:, 0], UtU, x=None if rs.rand() < 0.5 else np.abs(A([n])), n_iter_max=30), real_ok
        if entry == "active_set_restart":
            # warm start that is positive on two identical regressors: the first passive-set solve is singular and the solver
            # restarts from zeros (a separate code path)
            n2 = n + 2
            U2 = np.abs(A([n2 + 2, n2])) + np.eye(n2 + 2, n2, dtype=dt)
            U2[:, 1] = U2[:, 0]
            G, g = (U2.T @ U2).astype(dt), (U2.T @ np.abs(A([n2 + 2]))).astype(dt)
            x0 = np.zeros(n2, dtype=dt)
            x0[:2] = 1
            x0[2:] = (rs.uniform(size=n2 - 2) < 0.5)
            return lambda: nnls.active_set_nnls(g, G, x=x0.copy(), n_iter_max=30), real_ok
        rows = 3
        Xd = A([rows, n + 2])
        uM, uU = (Xd @ U).astype(dt), UtU
        if entry == "admm":
            return lambda: admm_mod.admm(uM, uU, A([rows, n]), np.zeros((rows, n), dtype=dt), n_const=None), real_ok
        return lambda: admm_mod.admm(uM, uU, A([rows, n]), np.zeros((rows, n), dtype=dt), n_iter_max=5, n_const=1, order=0, non_negative=True), real_ok
    if entry in REG:
        from tensorly.regression.cp_regression import CPRegressor
        from tensorly.regression.tucker_regression import TuckerRegressor
        from tensorly.regression.cp_plsr import CP_PLSR
        n = 10
        fsh = gen.shape(rs, 2, 2, 4)
        Xr, y = A([n] + fsh), A([n])
        if entry == "cp_regressor" and rs.rand() < 0.5:
            y = A([n] + gen.shape(rs, int(rs.randint(1, 3)), 1, 3))       # tensor-valued response: the factors of its modes are fitted too
        elif entry == "cp_plsr" and rs.rand() < 0.5:
            y = A([n, int(rs.randint(1, 4))])
        if entry == "cp_regressor":
            def f():
                e = CPRegressor(weight_rank=2, n_iter_max=it, random_state=sd, verbose=0).fit(Xr, y)
                return [e.weight_tensor_, list(e.cp_weight_[1]), e.cp_weight_[0], e.vec_W_, e.predict(Xr)]
        elif entry == "tucker_regressor":
            def f():
                e = TuckerRegressor(weight_ranks=[2, 2], n_iter_max=it, random_state=sd, verbose=0).fit(Xr, y)
                return [e.weight_tensor_, e.tucker_weight_[0], list(e.tucker_weight_[1]), e.vec_W_, e.predict(Xr)]
        else:
            def f():
                e = CP_PLSR(n_components=2, random_state=sd).fit(Xr, y)
                return [list(e.X_factors), list(e.Y_factors), e.coef_, e.predict(Xr), e.transform(Xr)]
        return f, real_ok
    if entry in ("random_cp", "random_tucker", "random_tt", "random_tr", "random_parafac2"):
        ctxd = {"dtype": np.dtype(dt).type}
        if entry == "random_cp":
            return lambda: R.random_cp(tuple(shp), R_, random_state=sd, normalise_factors=bool(rs.rand() < 0.5), full=bool(rs.rand() < 0.3), **ctxd), real_ok
        if entry == "random_tucker":
            return lambda: R.random_tucker(tuple(shp), [2] * order, random_state=sd, **ctxd), real_ok
        if entry == "random_tt":
            return lambda: R.random_tt(tuple(shp), [1] + [2] * (order - 1) + [1], random_state=sd, **ctxd), real_ok
        if entry == "random_tr":
            return lambda: R.random_tr(tuple(shp), 2, random_state=sd, **ctxd), real_ok
        return lambda: R.random_parafac2([(4, 3), (5, 3)], 2, random_state=sd, **ctxd), real_ok
    if entry == "np_scalar_hyper":
        # hyper-parameters given as NumPy double scalars (np.logspace grids, np.float64 config values) must not decide the dtype
        # of the factors; restricted to the entry points that keep the data dtype for such scalars on the reference tree
        f64 = np.float64
        which = gen.choice(rs, ["parafac_l2", "parafac_tol", "parafac_sparsity", "hals_sparsity", "nn_tucker_hals_sparsity", "constrained_simplex", "simplex_prox", "smoothness_prox"])
        rk = [int(rs.randint(1, min(s, 3) + 1)) for s in shp]
        table = {"parafac_l2": lambda: D.parafac(X, R_, n_iter_max=it, l2_reg=f64(0.1), random_state=sd),
                 "parafac_tol": lambda: D.parafac(X, R_, n_iter_max=it + 2, tol=f64(1e-8), random_state=sd, return_errors=True),
                 "parafac_sparsity": lambda: D.parafac(X, R_, n_iter_max=it, sparsity=f64(0.2), random_state=sd),
                 "hals_sparsity": lambda: D.non_negative_parafac_hals(Xp, R_, n_iter_max=it, sparsity_coefficients=[f64(0.1)] * order, random_state=sd),
                 "nn_tucker_hals_sparsity": lambda: D.non_negative_tucker_hals(Xp, rk, n_iter_max=it, sparsity_coefficients=[f64(0.1)] * order, random_state=sd),
                 "constrained_simplex": lambda: D.constrained_parafac(gen.arr(rs, gen.shape(rs, 3, 2, 5), dt, "gauss"), R_, n_iter_max=it, simplex=f64(1.0), random_state=sd),
                 "simplex_prox": lambda: P.simplex_prox(A([5, 3]), f64(1.0)), "smoothness_prox": lambda: P.smoothness_prox(A([5, 3]), f64(0.3))}
        return table[which], real_ok
    if entry in API:
        from tensorly.decomposition import _cp, _tucker, _parafac2, _constrained_cp
        X3 = gen.arr(rs, gen.shape(rs, 3, 3, 5), dt, "gauss")
        ctxd = {"dtype": np.dtype(dt).type}
        I, K, r2 = 3, 4, 2
        J = [int(rs.randint(3, 6)) for _ in range(I)]
        sl = [A([j, K]) for j in J]
        tup = (np.ones(r2, dtype=dt), [A([I, r2]), A([r2, r2]), A([K, r2])], [gen.orth(rs, j, r2, dt) for j in J])
        if entry == "tt_cross":
            from tensorly.contrib.decomposition import tensor_train_cross
            def f():
                try:
                    return tensor_train_cross(X3, [1, 2, 2, 1], tol=1e-2, n_iter_max=30, random_state=sd)
                except ValueError as e:
                    if "did not converge" in str(e):   # documented outcome of the cross approximation, not a dtype matter
                        return []
                    raise
            return f, real_ok
        if entry == "tt_oi":
            from tensorly.contrib.decomposition.tt_TTOI import tensor_train_OI
            # (n_iter > 1 raises UnboundLocalError in this contrib function today - unbound `factors` / `right_singular_vectors`; no property covers it)
            return lambda: tensor_train_OI(X3, [1, 2, 2, 1], n_iter=1, trajectory=bool(rs.rand() < 0.5)), real_ok
        if entry == "partial_tucker":
            return lambda: D.partial_tucker(X, [min(2, shp[0]), min(2, shp[-1])], modes=[0, order - 1], n_iter_max=it, init=gen.choice(rs, ["svd", "random"]), random_state=sd), real_ok
        if entry == "initialize_cp":
            big = int(rs.randint(1, max(shp) + 3))
            return lambda: [_cp.initialize_cp(X, big, init=ini, random_state=sd, normalize_factors=nf) for ini in ("svd", "random") for nf in (False, True)] + [
                _cp.initialize_cp(Xp, big, init="svd", non_negative=True, random_state=sd)], real_ok
        if entry == "initialize_tucker":
            rk = [int(rs.randint(1, min(s_, 3) + 1)) for s_ in shp]
            return lambda: [_tucker.initialize_tucker(X, rk, list(range(order)), sd, init=ini) for ini in ("svd", "random")] + [
                _tucker.initialize_tucker(Xp, rk, list(range(order)), sd, init="svd", non_negative=True)], real_ok
        if entry == "initialize_constrained":
            Xc = gen.arr(rs, gen.shape(rs, 3, 2, 5), dt, "gauss")
            return lambda: [_constrained_cp.initialize_constrained_parafac(Xc, R_, init=ini, random_state=sd, **o) for ini in ("svd", "random")
                            for o in ({"non_negative": True}, {"l1_reg": 0.1}, {"simplex": 1.0}, {"smoothness": 0.1})], real_ok
        if entry == "initialize_parafac2":
            return lambda: [_parafac2.initialize_decomposition(sl, r2, init=ini, random_state=sd) for ini in ("svd", "random")], real_ok
        if entry == "cp_lstsq_grad":
            return lambda: cpm.cp_lstsq_grad((w.astype(dt), fs), X, return_loss=True), real_ok
        if entry == "p2_projections":
            return lambda: [p2m.apply_parafac2_projections(tup), p2m.parafac2_to_slice(tup, 1), p2m.parafac2_to_unfolded(tup, 1), p2m.parafac2_to_vec(tup)], real_ok
        if entry == "sample_khatri_rao":
            return lambda: D.sample_khatri_rao(fs, int(rs.randint(1, 9)), skip_matrix=gen.choice(rs, [None, 0]), random_state=sd)[0], real_ok
        if entry == "random_tensor":
            return lambda: R.random_tensor(tuple(shp), random_state=sd, **ctxd), real_ok
        if entry == "random_tt_matrix":
            return lambda: R.random_tt_matrix((2, 3, 2, 3), [1, 2, 1], random_state=sd, full=bool(rs.rand() < 0.3), **ctxd), real_ok
        if entry == "svd_decompress":
            from tensorly import preprocessing as pre
            return lambda: pre.svd_decompress_parafac2_tensor(tup, [gen.orth(rs, j + 2, j, dt) for j in J]), real_ok
        if entry == "error_metrics":
            from tensorly.metrics import regression as mr
            y, yp = A(shp), A(shp)
            ax = gen.choice(rs, [None, 0])
            return lambda: [mr.MSE(y, yp, axis=ax), mr.RMSE(y, yp, axis=ax), mr.R2_score(y, yp), mr.reflective_correlation_coefficient(y, yp, axis=ax), mr.variance(y, axis=ax),
                            mr.standard_deviation(y, axis=ax), mr.covariance(y, yp, axis=ax), mr.correlation(y, yp, axis=ax)], real_ok
        if entry == "similarity_metrics":
            from tensorly.metrics import correlation_index, congruence_coefficient
            g2 = [A([f.shape[0], R_]) for f in fs]
            return lambda: [correlation_index(list(fs), g2, method=gen.choice(rs, ["stacked", "max_score", "avg_score"])), congruence_coefficient(list(fs), g2)[0]], real_ok
        if entry == "entropy":
            from tensorly.metrics import entropy as E
            a = A([4, 4])
            rho = (a @ a.T / np.trace(a @ a.T)).astype(dt)
            return lambda: E.vonneumann_entropy(rho), real_ok
        if entry == "decomposition_classes":
            rk = [int(rs.randint(1, min(s_, 3) + 1)) for s_ in shp]
            which = gen.choice(rs, ["CP", "CP_NN", "CP_NN_HALS", "RandomizedCP", "Tucker", "Tucker_NN", "TensorTrain", "TensorRing", "Parafac2", "CPPower", "ConstrainedCP", "TensorRingALS"])
            table = {"CP": lambda: D.CP(R_, n_iter_max=it, random_state=sd).fit_transform(X),
                     "CP_NN": lambda: D.CP_NN(R_, n_iter_max=it, random_state=sd).fit_transform(Xp),
                     "CP_NN_HALS": lambda: D.CP_NN_HALS(R_, n_iter_max=it, random_state=sd).fit_transform(Xp),
                     "RandomizedCP": lambda: D.RandomizedCP(R_, 10, n_iter_max=it, random_state=sd, max_stagnation=0).fit_transform(X),
                     "Tucker": lambda: D.Tucker(rk, n_iter_max=it, random_state=sd).fit_transform(X),
                     "Tucker_NN": lambda: __import__("tensorly.decomposition._tucker", fromlist=["x"]).Tucker_NN(rk, n_iter_max=it, random_state=sd).fit_transform(Xp),
                     "TensorTrain": lambda: D.TensorTrain([1] + [2] * (order - 1) + [1]).fit_transform(X),
                     "TensorRing": lambda: D.TensorRing([1] + [2] * (order - 1) + [1]).fit_transform(X),
                     "Parafac2": lambda: D.Parafac2(r2, n_iter_max=it + 6, random_state=sd, return_errors=True).fit_transform(sl),
                     "CPPower": lambda: D.CPPower(R_, n_repeat=2, n_iteration=2).fit_transform(X),
                     "ConstrainedCP": lambda: D.ConstrainedCP(R_, n_iter_max=it, random_state=sd, non_negative=True).fit_transform(X3),
                     "TensorRingALS": lambda: D.TensorRingALS([2, 1, 2, 2], n_iter_max=it, random_state=sd).fit_transform(X3)}
            return table[which], real_ok
        if entry == "wrapper_methods":
            cp = cpm.CPTensor((w.astype(dt), [f.copy() for f in fs]))
            rk = gen.shape(rs, order, 1, 3)
            tk = tkm.TuckerTensor((A(rk), [A([s_, r_]) for s_, r_ in zip(shp, rk)]))
            return lambda: [cp.to_tensor(), cp.to_vec(), cp.to_unfolded(0), cp.norm(), cp.mode_dot(A([2, shp[0]]), 0).to_tensor(), tk.to_tensor(), tk.to_vec(), tk.to_unfolded(0),
                            tk.mode_dot(A([2, shp[0]]), 0).to_tensor()], real_ok
    if entry == "metrics":
        from tensorly.metrics import regression as mr
        from tensorly.metrics.factors import congruence_coefficient
        y, yp = A([6, 3]), A([6, 3])
        return lambda: [mr.MSE(y, yp, axis=0), mr.RMSE(y, yp, axis=0), mr.correlation(y, yp, axis=0), mr.covariance(y, yp, axis=0)], real_ok
    raise ValueError(entry)


def run_case(case, ctx):
    import warnings
    warnings.simplefilter("ignore")
    entry = case["gen"]
    rs = gen.rng(case["seed"], case["idx"], entry)
    k = (case["idx"] // len(ENTRY)) % 6
    dt = ["float32", "float32", "float64", "float32", "complex128", "float32"][k]
    if dt == "complex128" and entry not in COMPLEX_OK:
        dt = "float32"
    ctx.count("checked/%s" % entry)
    ctx.count("dtype/%s" % dt)
    f, real_ok = build(entry, rs, dt)
    use_einsum = entry in EINSUM_TOO and (case["idx"] // len(ENTRY)) % 3 == 1
    if use_einsum:
        # the same entry point with the einsum formulations of the tensor algebra selected
        from tensorly import tenalg as _ta
        ctx.count("under_einsum_tenalg")
        f0, prev_ = f, _ta.get_backend()

        def f():
            _ta.set_backend("einsum")
            try:
                return f0()
            finally:
                _ta.set_backend(prev_)
    try:
        out = f()
    except np.linalg.LinAlgError:
        ctx.skip("singular problem")
        return
    except Exception as e:  # noqa
        # a call that raises returns no array: not a statement about dtypes (whether it should raise is other properties' business;
        # thorough-tier witness: leverage_score_dist of an all-zero least-squares solution inside tensor_ring_als_sampled).
        # The floor on returned/<entry> keeps an entry point that always raises from passing silently.
        ctx.skip("%s raised %s: no array to judge" % (entry, type(e).__name__))
        return
    ctx.count("returned/%s" % entry)
    found = []
    trace(out, found)
    want = np.dtype(dt)
    real_cp = np.dtype("float64") if dt == "complex128" else None
    desc = {"entry": entry, "dtype": dt}
    if dt != "float64":
        ctx.nontriv(dict(desc, n=case["idx"] // len(ENTRY)))
    ctx.sample({"case": desc, "arrays": [(p, str(d)) for p, d, _ in found[:6]]}, 8)
    for path, d, kind in found:
        if d.kind not in "fc":
            continue
        ctx.count("arrays_traced")
        ok = (d == want) or (real_cp is not None and d == real_cp and (path in real_ok or kind == "scalar"))
        if not ok:
            ctx.violation("C18:%s:dtype:%s-to-%s" % (entry, dt, d), "%s with %s input returned %s %s of dtype %s" % (entry, dt, kind, path, d), desc)
            return
