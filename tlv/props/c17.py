"""C17 — backend selection behaves as a per-thread stack over a shared default (both managers).

History recording at the client boundary + offline/online check against an executable reference model that is
non-deterministic exactly where the statement is silent. Three workloads:
  (1) bounded-exhaustive operation sequences over 2 threads, executed one operation at a time by a controller
      (operation-granular interleavings), all threads observed at quiescence after every operation;
  (2) random long histories over 3 threads and 3 backends;
  (3) free-running stress with a tiny switch interval and sys.monitoring LINE yield injection inside
      set_backend / backend_context; only schedule-independent invariants are asserted.
Distinct backends for tensorly.backend are stub subclasses of NumpyBackend registered under otherwise unloadable names
('cupy', 'jax'); tensorly.tenalg uses its real 'core' and 'einsum' backends. A wrapped dispatched method on every
backend instance records which instance actually executed a dispatched call.
"""
import itertools
import queue
import sys
import contextvars
import threading
import time

import numpy as np

from ..core import gen

ID = "C17"
LEVEL = "exploration"
RULE = ("(1) every operation sequence up to the tier's length over the alphabet {set global/local x backends, set bogus, enter "
        "global/local x backends, exit, exit-by-exception, query} x 2 threads, for both managers (exhaustive within the bound); "
        "(2) seeded random histories of length 30-200 over 3 threads; (3) free-running stress runs; a history is non-trivial when "
        "at least two threads act and at least one selection changes an observation; distinct = distinct operation sequences")
ASSUMPTIONS = ["operation-granular scheduling + statement-level yield injection; preemption inside one bytecode is excluded by the GIL",
               "the reference model is non-deterministic where the statement is silent (global-flavour context exit: whether the shared "
               "default is rewritten; after any context exit: whether a thread without prior selection stays pinned)",
               "manager internals (_backend, _THREAD_LOCAL_DATA) are reset between histories by the harness"]
GENS = ["exhaustive_backend", "exhaustive_tenalg", "random_backend", "random_tenalg", "cross_manager", "stress_backend", "stress_tenalg"]
KEEP_ORDER = False
CASE_TIMEOUT = {"quick": 240, "thorough": 900}
WALL_BUDGET = {"quick": 900, "thorough": 3600}


# ------------------------------------------------------------------------------------------------------------
# plan: exhaustive sequences are chunked by their first two operations so that shards get equal work
BOGUS = ("bogus", "bogusl", "bogusenterg", "bogusenterl")
EXITS = ("exit", "exitx", "exitb", "exit0")   # exit0: the OLDEST open context of the thread is closed (entry order, as streaming generators do)
DECO = ("decog", "decol")
_BOGUS_TURN = [0]


class _LeaveByBaseException(BaseException):
    """stands for KeyboardInterrupt / GeneratorExit / SystemExit travelling through a backend_context"""


def alphabet(nb, all_bogus=False):
    ops = []
    for b in range(nb):
        ops += [("setg", b), ("setl", b), ("enterg", b), ("enterl", b)]
    ops += [("bogus", None), ("exit", None), ("exitx", None), ("query", None)]
    if all_bogus:
        ops += [(b, None) for b in BOGUS[1:]] + [("exitb", None), ("exit0", None)]
        for b in range(nb):
            ops += [("decog", b), ("decol", b)]
    return ops


def plan(tier, seed):
    L = 4 if tier == "quick" else 5
    cases = []
    alpha = [(t, op) for t in range(2) for op in alphabet(2)]
    for mgr in ("backend", "tenalg"):
        for first in range(len(alpha)):
            for second in range(len(alpha)):
                cases.append({"gen": "exhaustive_" + mgr, "prefix": [first, second], "L": L, "seed": seed})
    nrand = 160 if tier == "quick" else 3000
    for i in range(nrand):
        cases.append({"gen": "random_" + ("backend" if i % 2 == 0 else "tenalg"), "idx": i, "seed": seed})
    for i in range(40 if tier == "quick" else 400):
        cases.append({"gen": "cross_manager", "idx": i, "seed": seed})
    for i in range(32 if tier == "quick" else 320):
        cases.append({"gen": "stress_" + ("backend" if i % 2 == 0 else "tenalg"), "idx": i, "seed": seed})
    return cases


def floors(tier):
    return {"histories/exhaustive_backend": 30000, "histories/exhaustive_tenalg": 30000, "histories/random_backend": 50, "histories/random_tenalg": 50,
            "histories/cross_manager": 30, "stress_runs": 20, "observations": 300000, "dispatched_calls_checked": 300000, "rejected_selections": 10000,
            "context_exits/normal": 5000, "context_exits/exception": 2000, "context_exits/base-exception": 2000, "single_writer_windows": 200, "decorated_nested_contexts": 100, "stress_yield_injections": 1000, "stress_dispatched_calls": 5000,
            "rejected_by/bogusenterg": 1000, "rejected_by/bogusenterl": 1000, "rejected_by/bogusl": 1000}


def bounds(tier):
    return {"exhaustive_length": 4 if tier == "quick" else 5, "threads": "2 (exhaustive), 3 (random), 3-8 (stress)", "backends": "2 (exhaustive), 3 (random; tenalg has 2)"}


def evidence_extra(agg, tier):
    c = agg["counters"]
    return {"distinct_histories": sum(v for k, v in c.get("histories", {}).items()),
            "model_states_seen_max": max([x for x in agg["extra"].get("max_model_states", [0])] or [0]),
            "distinct_interleavings": "every exhaustive history is one fixed operation-granular interleaving (thread ids are part of the sequence)",
            "stress_yield_injections": c.get("stress_yield_injections", 0)}


# ------------------------------------------------------------------------------------------------------------
# the system under test: one of the two managers
class Manager:
    def __init__(self, which):
        import tensorly as tl
        from tensorly import tenalg
        from tensorly.backend.core import Backend
        from tensorly.backend.numpy_backend import NumpyBackend
        self.which = which
        if which == "backend":
            self.mod = tl.backend.BackendManager
            self.api = tl
            if "cupy" not in Backend._available_backends:
                class StubCupy(NumpyBackend, backend_name="cupy"):
                    pass

                class StubJax(NumpyBackend, backend_name="jax"):
                    pass
            self.names = ["numpy", "cupy", "jax"]
            self.foreign_name = "einsum"
            self.marker = "ndim"
            self.marker_args = (np.zeros((2, 2)),)
        else:
            self.mod = tenalg.TenalgBackendManager
            self.api = tenalg
            self.names = ["core", "einsum"]
            self.foreign_name = "numpy"
            self.marker = "kronecker"
            self.marker_args = ([np.eye(2), np.eye(2)],)
        # load every backend once and wrap the marker method on each *instance*
        self.tls = threading.local()
        self.inst = {}
        for n in self.names:
            self.api.set_backend(n)
            inst = self.mod.current_backend()
            self.inst[n] = inst
            if not hasattr(inst, "_tlv_wrapped"):
                orig = getattr(inst, self.marker)

                def wrapped(*a, _orig=orig, _name=n, **k):
                    self.tls.ran_on = _name
                    return _orig(*a, **k)
                setattr(inst, self.marker, wrapped)
                inst._tlv_wrapped = True
        self.initial = self.names[0]
        self.reset_shared()

    def reset_shared(self):
        self.mod._backend = self.inst[self.initial]
        self.mod._default_backend = self.initial

    def reset_thread(self):
        """forget this thread's selection; False when the per-thread store is not a threading.local this harness can clear (then only
        a fresh thread is a pristine one, see reset_all)"""
        store = getattr(self.mod, "_THREAD_LOCAL_DATA", None)
        if isinstance(store, threading.local):
            store.__dict__.clear()
            return True
        return False

    def observe(self):
        """(name seen, identity matches name, backend that executed a dispatched call)"""
        name = self.api.get_backend()
        cur = self.mod.current_backend()
        self.tls.ran_on = None
        getattr(self.api, self.marker)(*self.marker_args)
        ident = cur is self.inst.get(name)
        if self.which == "tenalg":
            # the functions a backend runs are its own: the implementation reached through the selected backend comes from that
            # backend's package (the marker wrapper sits on the instance and would hide a mix-up one level below it)
            for fn_ in ("mode_dot", "khatri_rao", "unfolding_dot_khatri_rao"):
                mod_ = getattr(getattr(type(cur), fn_, None), "__module__", "") or ""
                if ("%s_tenalg" % name) not in mod_:
                    ident = False
        return name, ident, self.tls.ran_on


class Worker(threading.Thread):
    def __init__(self, mgrs):
        super().__init__(daemon=True)
        self.mgrs = mgrs
        self.q = queue.Queue()
        self.r = queue.Queue()
        self.stacks = {m: [] for m in mgrs}
        self.start()

    def run(self):
        while True:
            cmd = self.q.get()
            if cmd is None:
                return
            try:
                self.r.put(("ok", self.execute(*cmd)))
            except BaseException as e:  # noqa
                self.r.put(("exc", e))

    def call(self, *cmd):
        self.q.put(cmd)
        st, val = self.r.get(timeout=60)
        if st == "exc":
            raise val
        return val

    def execute(self, kind, mname=None, op=None, arg=None):
        if kind == "reset":
            # dropping an un-exited context finalises its generator, which runs the library's `finally: set_backend(old)`
            # right here: do that first, then clear this thread's selection
            for s in self.stacks.values():
                s.clear()
            return all([m.reset_thread() for m in self.mgrs.values()])
        m = self.mgrs[mname]
        if kind == "observe":
            return m.observe()
        if kind == "op":
            return do_op(m, self.stacks[mname], op, arg)
        if kind == "op_ctx":
            # the same operation from inside a contextvars.Context.run callback (what an asyncio task or a to_thread hop is): the
            # selection belongs to the thread, not to the execution context that happened to be current
            return contextvars.copy_context().run(do_op, m, self.stacks[mname], op, arg)
        if kind == "select_object":
            m.api.set_backend(arg, local_threadsafe=True)
            cur = m.mod.current_backend()
            return True if cur is arg else "another object (%s, the same name: %s)" % (type(cur).__name__, getattr(cur, "backend_name", None) == getattr(arg, "backend_name", None))
        if kind == "grab_ctx":
            return contextvars.copy_context()
        if kind == "observe_ctx":
            return arg.run(m.observe)
        raise ValueError(kind)


def do_op(m, stack, op, arg):
    """execute one API operation in the current thread; returns an outcome tag"""
    api = m.api
    if op == "setg":
        api.set_backend(m.names[arg])
        return "ok"
    if op == "setl":
        api.set_backend(m.names[arg], local_threadsafe=True)
        return "ok"
    if op in BOGUS:
        # unknown to this manager: either a name nobody knows, or a perfectly good name of the *other* manager
        _BOGUS_TURN[0] += 1
        bad = "no-such-backend" if _BOGUS_TURN[0] % 2 else m.foreign_name
        try:
            if op in ("bogus", "bogusl"):
                api.set_backend(bad, local_threadsafe=(op == "bogusl"))
            else:
                # a context whose entry is rejected was never entered: nothing to leave, nothing may change
                cm = api.backend_context(bad, local_threadsafe=(op == "bogusenterl"))
                cm.__enter__()
                stack.append(cm)
        except ValueError:
            return "rejected"
        except Exception as e:  # noqa
            return "rejected-with-%s" % type(e).__name__
        return "accepted"
    if op in ("enterg", "enterl"):
        cm = api.backend_context(m.names[arg], local_threadsafe=(op == "enterl"))
        cm.__enter__()
        stack.append(cm)
        return "ok"
    if op in EXITS:
        if not stack:
            return "noop"
        cm = stack.pop(0 if op == "exit0" else -1)
        try:
            if op in ("exit", "exit0"):
                cm.__exit__(None, None, None)
            else:
                # "by exception" includes the exceptions that are not Exception subclasses: an interrupt, a generator being closed
                etype = RuntimeError if op == "exitx" else _LeaveByBaseException
                exc = etype("leaving the context by exception")
                suppressed = cm.__exit__(etype, exc, None)
                if suppressed:
                    return "suppressed"
        except (RuntimeError, _LeaveByBaseException) as e:
            if op in ("exitx", "exitb") and "leaving the context" in str(e):
                return "ok"
            return "exit-raised-%s" % type(e).__name__
        except Exception as e:  # noqa
            return "exit-raised-%s" % type(e).__name__
        return "ok"
    if op in DECO:
        # one context-manager object used as a decorator on a function that calls itself: the object is active twice at once
        name = m.names[arg]
        seen = []

        @api.backend_context(name, local_threadsafe=(op == "decol"))
        def recurse(depth):
            seen.append(api.get_backend())
            if depth:
                recurse(depth - 1)
            seen.append(api.get_backend())
        recurse(1)
        return "ok" if all(x == name for x in seen) else "inner-view-%s" % "/".join(seen)
    if op == "query":
        return "ok"
    raise ValueError(op)


# ------------------------------------------------------------------------------------------------------------
# reference model: a set of possible states; state = (g, privates tuple, stacks tuple of tuples)
def model_init(nthreads, initial):
    return {(initial, (None,) * nthreads, ((),) * nthreads)}


def view(state, t):
    g, priv, _ = state
    return priv[t] if priv[t] is not None else g


def model_step(states, t, op, b):
    out = set()
    for (g, priv, stacks) in states:
        priv_l, stacks_l = list(priv), list(stacks)
        if op == "setg":
            priv_l[t] = b
            out.add((b, tuple(priv_l), stacks))
        elif op == "setl":
            priv_l[t] = b
            out.add((g, tuple(priv_l), stacks))
        elif op in BOGUS or op == "query":
            out.add((g, priv, stacks))
        elif op in DECO:
            e = "enterg" if op == "decog" else "enterl"
            cur = {(g, priv, stacks)}
            for sub in (e, e, "exit", "exit"):
                cur = model_step(cur, t, sub, b)
            out |= cur
        elif op in ("enterg", "enterl"):
            prev = priv[t] if priv[t] is not None else g
            stacks_l[t] = stacks[t] + ((prev, op == "enterl"),)
            priv_l[t] = b
            out.add(((g if op == "enterl" else b), tuple(priv_l), tuple(stacks_l)))
        elif op in EXITS:
            if not stacks[t]:
                out.add((g, priv, stacks))
                continue
            # a context restores the backend that was current when IT was entered, whichever open context of the thread it is
            at = 0 if op == "exit0" else len(stacks[t]) - 1
            prev, local = stacks[t][at]
            stacks_l[t] = stacks[t][:at] + stacks[t][at + 1:]
            gs = [g] if local else [g, prev]          # local flavour must leave the shared default alone
            for g2 in set(gs):
                p1 = list(priv_l)
                p1[t] = prev                          # pinned to the previous backend
                out.add((g2, tuple(p1), tuple(stacks_l)))
                if g2 == prev:                        # or floating on a default that equals it
                    p2 = list(priv_l)
                    p2[t] = None
                    out.add((g2, tuple(p2), tuple(stacks_l)))
    return out


def model_filter(states, views):
    return {s for s in states if all(view(s, t) == v for t, v in enumerate(views))}


# ------------------------------------------------------------------------------------------------------------
_POOL = {}


def pool(n):
    if "mgrs" not in _POOL:
        _POOL["mgrs"] = {"backend": Manager("backend"), "tenalg": Manager("tenalg")}
        _POOL["workers"] = []
    while len(_POOL["workers"]) < n:
        _POOL["workers"].append(Worker(_POOL["mgrs"]))
    return _POOL["mgrs"], _POOL["workers"][:n]


def reset_all(mgrs, workers):
    in_place = True
    for w in _POOL["workers"]:
        in_place = bool(w.call("reset")) and in_place
    for m in mgrs.values():
        in_place = bool(m.reset_thread()) and in_place
        m.reset_shared()
    if not in_place:
        # the library keeps the per-thread selection somewhere this harness cannot clear: retire the threads, fresh ones are pristine
        for w in _POOL["workers"]:
            w.q.put(None)
        _POOL["workers"] = []
        _POOL["fresh_threads_per_history"] = _POOL.get("fresh_threads_per_history", 0) + 1
        for m in mgrs.values():
            m.reset_shared()
    return in_place


def run_history(ctx, mname, hist, nthreads, nb, label):
    """execute a history [(thread, op, backend index)] step by step, checking the model after each operation"""
    mgrs, workers = pool(nthreads)
    if not reset_all(mgrs, workers):
        mgrs, workers = pool(nthreads)
    m = mgrs[mname]
    other = mgrs["tenalg" if mname == "backend" else "backend"]
    states = model_init(nthreads, m.names[0])
    other_before = other.observe()[0]
    max_states = 1
    trace = []
    for step, (t, op, b) in enumerate(hist):
        bname = m.names[b] if b is not None else None
        via_ctx = (step + len(hist) + t) % 3 == 0
        outcome = workers[t].call("op_ctx" if via_ctx else "op", mname, op, b)
        if via_ctx:
            ctx.count("ops_inside_a_context_run_callback")
        if op in BOGUS:
            ctx.count("rejected_selections")
            ctx.count("rejected_by/" + op)
            if outcome != "rejected":
                ctx.violation("C17:%s:rejected-selection:%s" % (mname, outcome), "%s with an unknown backend name: outcome %s (expected ValueError)" % (
                    "set_backend" if op in ("bogus", "bogusl") else "backend_context", outcome), {"history": hist[:step + 1]})
                return False
        if op in DECO:
            ctx.count("decorated_nested_contexts")
            if outcome != "ok":
                ctx.violation("C17:%s:decorated-context:%s" % (mname, op), "inside a recursive function decorated with backend_context(%s) the thread observed %s" % (bname, outcome), {"history": hist[:step + 1]})
                return False
        if op in EXITS and outcome not in ("ok", "noop"):
            ctx.violation("C17:%s:context-exit:%s" % (mname, outcome), "leaving backend_context (%s) %s" % ("by exception" if op in ("exitx", "exitb") else "normally", outcome),
                          {"history": hist[:step + 1], "manager": mname})
            return False
        if op in EXITS and outcome == "ok":
            ctx.count("context_exits/%s" % {"exit": "normal", "exitx": "exception", "exitb": "base-exception", "exit0": "oldest-first"}[op])
        obs = [w.call("observe", mname) for w in workers]
        ctx.count("observations", len(obs))
        trace.append({"t": t, "op": op, "b": bname, "views": [o[0] for o in obs]})
        for ti, (name, ident, ran) in enumerate(obs):
            ctx.count("dispatched_calls_checked")
            if not ident or ran != name:
                ctx.violation("C17:%s:dispatch-mismatch:any" % mname, "thread %d sees backend %r but current_backend() identity ok=%s and the dispatched call ran on %r" % (ti, name, ident, ran),
                              {"history": hist[:step + 1], "trace": trace})
                return False
        if (step + t) % 2 == 0 and nthreads > 1:
            # the acting thread's execution context handed to the other threads (asyncio.to_thread, Context.run in a worker): what a
            # thread observes is its own selection, not the one of the thread whose context it carries
            cobj = workers[t].call("grab_ctx", mname)
            for ti, w in enumerate(workers):
                if ti == t:
                    continue
                name_c, ident_c, ran_c = w.call("observe_ctx", mname, None, cobj)
                ctx.count("observations_under_a_foreign_context")
                if name_c != obs[ti][0] or not ident_c or ran_c != name_c:
                    ctx.violation("C17:%s:foreign-context-observation:%s" % (mname, op), "thread %d, running under a copy of thread %d's execution context, observes %r / runs on %r; "
                                  "on its own it observes %r" % (ti, t, name_c, ran_c, obs[ti][0]), {"history": hist[:step + 1], "trace": trace})
                    return False
        states = model_step(states, t, op, bname)
        filtered = model_filter(states, [o[0] for o in obs])
        max_states = max(max_states, len(states))
        if not filtered:
            # classify the offending step for the finding key
            ctx.violation("C17:%s:model-refuted:%s" % (mname, op), "after thread %d did %s(%s) the threads observe %s, which no run of the per-thread-stack model allows (model allowed views: %s)" % (
                t, op, bname, [o[0] for o in obs], sorted({tuple(view(s, i) for i in range(nthreads)) for s in states})),
                {"history": [(a, o, (m.names[x] if x is not None else None)) for a, o, x in hist[:step + 1]], "trace": trace, "manager": mname})
            return False
        states = filtered
    if other.observe()[0] != other_before:
        ctx.violation("C17:%s:cross-manager:any" % mname, "operations on %s changed the other manager's backend" % mname, {"history": hist})
        return False
    ctx.note("max_model_states", max_states, limit=3)
    return True


def nontrivial(hist):
    return len({t for t, _, _ in hist}) > 1 and any(op in ("setg", "setl", "enterg", "enterl") for _, op, _ in hist)


def run_case(case, ctx):
    g = case["gen"]
    if g.startswith("exhaustive_"):
        mname = g.split("_")[1]
        alpha = [(t, op) for t in range(2) for op in alphabet(2)]
        L = case["L"]
        pre = [alpha[i] for i in case["prefix"]]
        n = 0
        for rest in itertools.product(range(len(alpha)), repeat=L - 2):
            seq = pre + [alpha[i] for i in rest]
            # the single "rejected selection" letter stands for its four spellings (set / context entry x global / thread-local),
            # which the model treats alike: rotate through them by position so that each occurs in every context
            rot = len(seq) * case["prefix"][0] + case["prefix"][1]
            hist = [(t, (BOGUS[(k + t + rot) % 4] if op == "bogus" else ("exitb" if op == "exitx" and (k + t + rot) % 2 else ("exit0" if op == "exit" and (k + t + rot) % 3 == 0 else op))), b) for k, (t, (op, b)) in enumerate(seq)]
            # an exit with nothing to leave is a no-op identical to `query`: such sequences are covered by their query twin
            depth, redundant = [0, 0], False
            for t_, op_, _b in hist:
                if op_ in ("enterg", "enterl"):
                    depth[t_] += 1
                elif op_ in EXITS:
                    if depth[t_] == 0:
                        redundant = True
                        break
                    depth[t_] -= 1
            if redundant:
                ctx.count("exhaustive_sequences_skipped_as_equivalent")
                continue
            n += 1
            ctx.count("histories/%s" % g)
            if nontrivial(hist):
                ctx.nontriv_count(1)
            if not run_history(ctx, mname, hist, 2, 2, g):
                return
        ctx.sample({"gen": g, "prefix": [(t, op, b) for (t, (op, b)) in pre], "sequences_with_this_prefix": n, "length": L}, 2)
        return
    rs = gen.rng(case["seed"], case.get("idx", 0), g)
    if g.startswith("random_"):
        mname = g.split("_")[1]
        nb = 3 if mname == "backend" else 2
        nt = 3
        length = int(rs.randint(30, 201))
        alpha = alphabet(nb, all_bogus=True)
        w = np.array([3 if op[0] in EXITS else 1 for op in alpha], dtype=float)
        hist = []
        for _ in range(length):
            op, b = alpha[int(rs.choice(len(alpha), p=w / w.sum()))]
            hist.append((int(rs.randint(nt)), op, b))
        ctx.count("histories/%s" % g)
        ctx.nontriv({"gen": g, "idx": case["idx"], "len": length})
        ctx.sample({"gen": g, "length": length, "head": hist[:8]}, 1)
        run_history(ctx, mname, hist, nt, nb, g)
        return
    if g == "cross_manager":
        # interleave operations on both managers; each manager's observations must follow its own model only
        mgrs, workers = pool(2)
        if not reset_all(mgrs, workers):
            mgrs, workers = pool(2)
        # a backend selected as an object (documented: "tensorly.Backend or str"): the thread then runs on THAT object, also when another
        # instance is already loaded under the same name
        for mn_, m_ in mgrs.items():
            twin = type(m_.inst[m_.names[-1]])()
            res = workers[0].call("select_object", mn_, None, twin)
            ctx.count("backend_selected_as_object")
            if res is not True:
                ctx.violation("C17:%s:object-selection:twin-instance" % mn_, "after set_backend(<a second instance of the %r backend>, local_threadsafe=True) the thread's current backend is %s" % (
                    m_.names[-1], res), {"manager": mn_})
                return
        if not reset_all(mgrs, workers):
            mgrs, workers = pool(2)
        st = {mn: model_init(2, mgrs[mn].names[0]) for mn in mgrs}
        hist = []
        for _ in range(int(rs.randint(10, 40))):
            mn = gen.choice(rs, ["backend", "tenalg"])
            op, b = gen.choice(rs, alphabet(2, all_bogus=True))
            t = int(rs.randint(2))
            hist.append((mn, t, op, b))
            workers[t].call("op", mn, op, b)
            st[mn] = model_step(st[mn], t, op, mgrs[mn].names[b] if b is not None else None)
            for m2 in mgrs:
                obs = [w.call("observe", m2)[0] for w in workers]
                ctx.count("observations", len(obs))
                f = model_filter(st[m2], obs)
                if not f:
                    ctx.violation("C17:%s:cross-manager:%s" % (m2, "self" if m2 == mn else "other"), "after an operation on %s the %s manager shows %s, impossible for its own history" % (mn, m2, obs), {"history": hist})
                    return
                st[m2] = f
        ctx.count("histories/cross_manager")
        ctx.nontriv({"gen": g, "idx": case["idx"]})
        return
    if g.startswith("stress_"):
        stress(ctx, g.split("_")[1], rs, case)
        single_writer(ctx, g.split("_")[1], rs, case)
        return
    raise ValueError(g)


# ------------------------------------------------------------------------------------------------------------
def stress(ctx, mname, rs, case):
    """free-running threads; only schedule-independent invariants:
       (a) a thread that has made a selection always observes exactly what its own operations imply;
       (b) while every running thread uses local-flavour operations only, threads that never selected see the initial default."""
    mgrs, _ = pool(0)
    m = mgrs[mname]
    reset_all(mgrs, [])
    nb = len(m.names)
    nact = int(rs.randint(3, 7))
    local_only = bool(rs.rand() < 0.6)
    nops = 300
    errors = []
    inj = [0]
    ndisp = [0]
    stop = threading.Event()
    seeds = [int(rs.randint(0, 2 ** 31 - 1)) for _ in range(nact)]

    # statement-level yield injection inside the manager's set_backend / backend_context
    tool = None
    try:
        mon = sys.monitoring
        tool = 3
        mon.use_tool_id(tool, "tlv-c17")
        from tensorly.backend import BackendManager
        codes = {BackendManager.set_backend.__func__.__code__, BackendManager.backend_context.__func__.__wrapped__.__code__, BackendManager.current_backend.__func__.__code__}
        disp = getattr(getattr(m.api, m.marker), "__code__", None)   # the dispatch wrapper shared by all dynamically dispatched functions
        if disp is not None:
            codes.add(disp)

        def on_line(code, line):
            if code in codes:
                inj[0] += 1
                time.sleep(0)
                return None
            return mon.DISABLE
        mon.register_callback(tool, mon.events.LINE, on_line)
        mon.set_events(tool, mon.events.LINE)
    except Exception:  # noqa
        tool = None

    def actor(i):
        r = np.random.RandomState(seeds[i])
        m.reset_thread()
        mine = m.names[int(r.randint(nb))]
        m.api.set_backend(mine, local_threadsafe=True)   # from now on this thread has a private selection
        stack = []
        for k in range(nops):
            if stop.is_set():
                return
            choice = r.randint(6)
            try:
                if choice == 0:
                    mine = m.names[int(r.randint(nb))]
                    m.api.set_backend(mine, local_threadsafe=True)
                elif choice == 1 and not local_only:
                    mine = m.names[int(r.randint(nb))]
                    m.api.set_backend(mine)
                elif choice in (2, 3):
                    fl = True if local_only else bool(r.randint(2))
                    new = m.names[int(r.randint(nb))]
                    cm = m.api.backend_context(new, local_threadsafe=fl)
                    cm.__enter__()
                    stack.append((cm, mine))
                    mine = new
                elif choice == 4 and stack:
                    cm, prev = stack.pop()
                    if r.randint(2):
                        cm.__exit__(None, None, None)
                    else:
                        try:
                            cm.__exit__(RuntimeError, RuntimeError("x"), None)
                        except RuntimeError:
                            pass
                    mine = prev
                for _ in range(3):
                    seen = m.api.get_backend()
                    if seen != mine:
                        errors.append(("own-view", i, k, mine, seen))
                        stop.set()
                        return
                    m.tls.ran_on = None
                    getattr(m.api, m.marker)(*m.marker_args)
                    ndisp[0] += 1
                    if m.tls.ran_on != mine:
                        errors.append(("dispatch", i, k, mine, m.tls.ran_on))
                        stop.set()
                        return
                    time.sleep(0)
            except Exception as e:  # noqa
                errors.append(("exception", i, k, type(e).__name__, str(e)[:100]))
                stop.set()
                return

    def observer(i):
        m.reset_thread()
        while not stop.is_set():
            seen = m.api.get_backend()
            if local_only and seen != m.initial:
                errors.append(("observer", i, None, m.initial, seen))
                stop.set()
                return
            time.sleep(0)

    old = sys.getswitchinterval()
    sys.setswitchinterval(1e-6)
    try:
        obs = [threading.Thread(target=observer, args=(i,), daemon=True) for i in range(2)]
        acts = [threading.Thread(target=actor, args=(i,), daemon=True) for i in range(nact)]
        for t in obs + acts:
            t.start()
        for t in acts:
            t.join(timeout=120)
        stop.set()
        for t in obs:
            t.join(timeout=10)
    finally:
        sys.setswitchinterval(old)
        if tool is not None:
            try:
                sys.monitoring.set_events(tool, 0)
                sys.monitoring.register_callback(tool, sys.monitoring.events.LINE, None)
                sys.monitoring.free_tool_id(tool)
            except Exception:  # noqa
                pass
    ctx.count("stress_runs")
    ctx.count("stress_yield_injections", inj[0])
    ctx.count("stress_dispatched_calls", ndisp[0])
    ctx.nontriv({"gen": "stress", "idx": case["idx"], "m": mname})
    ctx.sample({"gen": "stress_" + mname, "actors": nact, "local_only": local_only, "ops_per_actor": nops, "yield_injections": inj[0]}, 1)
    if errors:
        kind = errors[0][0]
        ctx.violation("C17:%s:stress-%s:%s" % (mname, kind, "local-only" if local_only else "mixed"),
                      "free-running threads: %s" % (errors[0],), {"errors": errors[:5], "local_only": local_only, "actors": nact})


def single_writer(ctx, mname, rs, case):
    """one thread changes the shared default (global flavour), several threads do thread-local operations only, observer threads
    never select anything. After each global selection the writer opens a window during which nothing global happens: every
    observer must then see exactly the writer's last selection, whatever the local threads are in the middle of ("a thread-local
    selection or thread-local context never changes what any other thread observes")."""
    mgrs, _ = pool(0)
    m = mgrs[mname]
    reset_all(mgrs, [])
    nb = len(m.names)
    errors = []
    inj = [0]
    stop = threading.Event()
    lock = threading.Lock()
    state = {"stable": False, "expected": m.initial, "epoch": 0}
    nloc = int(rs.randint(2, 5))
    seeds = [int(rs.randint(0, 2 ** 31 - 1)) for _ in range(nloc + 1)]
    windows = [0]

    tool = None
    try:
        mon = sys.monitoring
        tool = 3
        mon.use_tool_id(tool, "tlv-c17")
        from tensorly.backend import BackendManager
        codes = {BackendManager.set_backend.__func__.__code__, BackendManager.backend_context.__func__.__wrapped__.__code__, BackendManager.current_backend.__func__.__code__}

        def on_line(code, line):
            if code in codes:
                inj[0] += 1
                time.sleep(0)
                return None
            return mon.DISABLE
        mon.register_callback(tool, mon.events.LINE, on_line)
        mon.set_events(tool, mon.events.LINE)
    except Exception:  # noqa
        tool = None

    def writer():
        r = np.random.RandomState(seeds[-1])
        m.reset_thread()
        cur = m.initial
        for k in range(40):
            if stop.is_set():
                return
            new = m.names[(m.names.index(cur) + 1 + int(r.randint(nb - 1))) % nb]   # always a different backend
            with lock:
                state["stable"] = False
                state["epoch"] += 1
            m.api.set_backend(new)
            cur = new
            with lock:
                state["expected"] = new
                state["stable"] = True
            windows[0] += 1
            t_end = time.monotonic() + 0.004
            while time.monotonic() < t_end and not stop.is_set():
                time.sleep(0)
        with lock:
            state["stable"] = False

    def local_actor(i):
        r = np.random.RandomState(seeds[i])
        m.reset_thread()
        stack = []
        while not stop.is_set():
            c = r.randint(4)
            try:
                if c == 0:
                    m.api.set_backend(m.names[int(r.randint(nb))], local_threadsafe=True)
                elif c in (1, 2):
                    cm = m.api.backend_context(m.names[int(r.randint(nb))], local_threadsafe=True)
                    cm.__enter__()
                    stack.append(cm)
                elif stack:
                    stack.pop().__exit__(None, None, None)
            except Exception as e:  # noqa
                errors.append(("exception", i, type(e).__name__, str(e)[:100]))
                stop.set()
                return
        while stack:
            stack.pop().__exit__(None, None, None)

    def observer(i):
        m.reset_thread()
        while not stop.is_set():
            with lock:
                st, exp, ep = state["stable"], state["expected"], state["epoch"]
            if st:
                seen = m.api.get_backend()
                with lock:
                    still = state["stable"] and state["epoch"] == ep
                if still and seen != exp:
                    errors.append(("observer-sees-stale-default", i, exp, seen))
                    stop.set()
                    return
            time.sleep(0)

    old = sys.getswitchinterval()
    sys.setswitchinterval(1e-6)
    try:
        ths = [threading.Thread(target=observer, args=(i,), daemon=True) for i in range(2)] + [threading.Thread(target=local_actor, args=(i,), daemon=True) for i in range(nloc)]
        wt = threading.Thread(target=writer, daemon=True)
        for t in ths + [wt]:
            t.start()
        wt.join(timeout=120)
        stop.set()
        for t in ths:
            t.join(timeout=10)
    finally:
        sys.setswitchinterval(old)
        if tool is not None:
            try:
                sys.monitoring.set_events(tool, 0)
                sys.monitoring.register_callback(tool, sys.monitoring.events.LINE, None)
                sys.monitoring.free_tool_id(tool)
            except Exception:  # noqa
                pass
    ctx.count("single_writer_runs")
    ctx.count("single_writer_windows", windows[0])
    ctx.count("stress_yield_injections", inj[0])
    if errors:
        ctx.violation("C17:%s:stress-%s:single-global-writer" % (mname, errors[0][0]), "one global writer, %d thread-local actors: %s" % (nloc, errors[0],), {"errors": errors[:5]})
