"""C05 — svd_interface returns a genuine, sign-canonical truncated SVD.

Monitors the return value (U, S, V) of tensorly.tenalg.svd_interface / tl.truncated_svd on generated
matrices against numpy.linalg.svd in float64: shapes, ordering, singular values, orthonormality,
truncation error = discarded tail (on squares), sign convention, non-negativity option.
"""
import numpy as np

from ..core import gen, ref, tol

ID = "C05"
RULE = ("seeded matrices (tall/square/wide/1xN/Nx1, up to 12x12) in classes generic / exactly rank-deficient / repeated "
        "singular values / integer / non-negative / signed / diagonal-sparse, x method x n_eigenvecs in 1..max(shape)+2|None x "
        "flip side x non_negative option; non-trivial = min(shape) > 1; distinct = distinct (shape, class, method, n, options)")
ASSUMPTIONS = ["numpy.linalg.svd in float64 is the trusted reference",
               "symeig_svd (Gram based): sqrt(eps) accuracy is inherent; orthonormality of its derived-side vectors is asserted only "
               "for singular values >= eps^(1/4)*sigma_max; beyond the numerical rank it is a listed known finding",
               "randomized_svd asserted only when n_eigenvecs + n_oversamples covers the numerical rank",
               "masked SVD (imputation loop) is not part of the statement and is not exercised"]
METHODS = ["truncated_svd", "symeig_svd", "randomized_svd", "callable", "direct_truncated"]
CLASSES = ["generic", "rankdef", "repeated", "integer", "nonneg", "diag", "generic", "balanced-signs", "symmetric-singular", "graded", "coordinate-structure"]


def plan(tier, seed):
    n = 24000 if tier == "quick" else 320000
    return [{"gen": METHODS[i % len(METHODS)], "idx": i, "seed": seed} for i in range(n)]


def floors(tier):
    f = {"checked/%s" % m: 300 for m in METHODS}
    f.update({"clause/shapes": 1500, "clause/singular-values": 1500, "clause/orthonormal": 1500, "clause/best-approx": 1500,
              "clause/sign": 500, "clause/non-negative": 200})
    return f


def bounds(tier):
    return {"max_dim": 12, "n_eigenvecs": "1..max(shape)+2 and None", "dtypes": ["float64", "float32"]}


def make_matrix(rs, cls, d1, d2, dt):
    m = min(d1, d2)
    if cls == "generic":
        M = rs.standard_normal((d1, d2))
    elif cls == "rankdef":
        r = int(rs.randint(1, max(m, 2)))
        M = rs.standard_normal((d1, r)) @ rs.standard_normal((r, d2))
    elif cls == "repeated":
        Q1 = np.linalg.qr(rs.standard_normal((d1, d1)))[0]
        Q2 = np.linalg.qr(rs.standard_normal((d2, d2)))[0]
        sv = np.sort(rs.choice([3.0, 2.0, 2.0, 1.0, 1.0, 0.5], size=m))[::-1]
        D = np.zeros((d1, d2))
        D[np.arange(m), np.arange(m)] = sv
        M = Q1 @ D @ Q2
    elif cls == "graded":
        # low rank with a steeply graded spectrum (1, 1e-2, 1e-4, ...): power iterations without re-orthonormalisation lose the tail
        r = int(rs.randint(1, min(m, 5) + 1))
        Q1 = np.linalg.qr(rs.standard_normal((d1, r)))[0]
        Q2 = np.linalg.qr(rs.standard_normal((d2, r)))[0]
        M = (Q1 * (10.0 ** (-float(rs.choice([0.5, 1, 2])) * np.arange(r)))) @ Q2.T
    elif cls == "integer":
        M = rs.randint(-3, 4, size=(d1, d2)).astype(float)
    elif cls == "nonneg":
        M = rs.uniform(0, 1, size=(d1, d2))
    elif cls == "diag":
        M = np.zeros((d1, d2))
        k = rs.permutation(m)
        M[np.arange(m), k] = rs.standard_normal(m) * (rs.uniform(size=m) < 0.8)
        if d2 > m:
            M[:, m:] = 0
    elif cls == "balanced-signs":
        # structured data whose singular vectors have their largest positive and negative entries of exactly equal magnitude:
        # rows/columns that are exact negatives of each other, +-1 designs (Hadamard-like), two opposite columns
        how = rs.randint(3)
        if how == 0:
            base = rs.randint(1, 4, size=(max(d1 // 2, 1), d2)).astype(float)
            M = np.concatenate([base, -base, np.zeros((max(d1 - 2 * base.shape[0], 0), d2))], axis=0)[:d1]
        elif how == 1:
            M = rs.choice([-1.0, 1.0], size=(d1, d2))
        else:
            c = rs.standard_normal((d1, 1))
            M = np.concatenate([c, -c] * ((d2 + 1) // 2), axis=1)[:, :d2] * rs.choice([1.0, 2.0], size=(1, d2))
    elif cls == "symmetric-singular":
        # exactly symmetric, singular (an exact zero eigenvalue): diagonal with zeros, [[1,-1],[-1,1]] blocks, block structure
        n = min(d1, d2)
        how = rs.randint(3)
        S = np.zeros((n, n))
        if how == 0:
            S[np.arange(n), np.arange(n)] = rs.randint(-2, 3, size=n)
        elif how == 1:
            for i in range(0, n - 1, 2):
                S[i:i + 2, i:i + 2] = np.array([[1.0, -1.0], [-1.0, 1.0]]) * rs.randint(1, 4)
        else:
            v = rs.randint(-2, 3, size=(n, max(n - 1, 1))).astype(float)
            S = v @ v.T
        M = np.zeros((d1, d2))
        M[:n, :n] = S
    elif cls == "coordinate-structure":
        # ranges that contain coordinate vectors: zero padding in front of / behind / around a dense block, indicator (one-hot)
        # rows and columns for single samples, reversed or permuted identities
        how = rs.randint(5)
        M = np.zeros((d1, d2))
        if how == 0:      # padded block
            r0, c0 = int(rs.randint(0, d1)), int(rs.randint(0, d2))
            r1, c1 = int(rs.randint(r0 + 1, d1 + 1)), int(rs.randint(c0 + 1, d2 + 1))
            M[r0:r1, c0:c1] = rs.standard_normal((r1 - r0, c1 - c0))
        elif how == 1:    # dense block plus an indicator column / row for the last (or first) sample
            M = rs.standard_normal((d1, d2))
            i_, j_ = (d1 - 1, d2 - 1) if rs.rand() < 0.6 else (0, 0)
            M[i_, :] = 0
            M[:, j_] = 0
            M[i_, j_] = float(rs.randint(1, 4))
        elif how == 2:    # (part of) a reversed identity
            n = min(d1, d2)
            M[np.arange(n)[::-1] % d1, np.arange(n)] = 1.0
        elif how == 3:    # a permutation with signs and scales
            n = min(d1, d2)
            M[rs.permutation(d1)[:n], rs.permutation(d2)[:n]] = rs.randint(1, 4, size=n) * rs.choice([-1.0, 1.0], n)
        else:             # a few dense rows, the rest zero
            k_ = int(rs.randint(1, d1 + 1))
            M[rs.permutation(d1)[:k_], :] = rs.standard_normal((k_, d2))
        if not np.any(M):
            M[-1, -1] = 1.0
    else:
        raise ValueError(cls)
    return M.astype(dt)


def run_case(case, ctx):
    import tensorly as tl
    from tensorly.tenalg import svd_interface
    from tensorly.tenalg.svd import truncated_svd

    method = case["gen"]
    rs = gen.rng(case["seed"], case["idx"], method)
    dt = "float32" if rs.rand() < 0.25 else "float64"
    eps = tol.eps_of(dt)
    shape_kind = gen.choice(rs, ["any", "any", "any", "row", "col", "square"])
    d1, d2 = int(rs.randint(1, 13)), int(rs.randint(1, 13))
    if shape_kind == "row":
        d1 = 1
    elif shape_kind == "col":
        d2 = 1
    elif shape_kind == "square":
        d2 = d1
    cls = gen.choice(rs, CLASSES)
    M = make_matrix(rs, cls, d1, d2, dt)
    # the same matrix in very small / very large units (not for symeig_svd, whose absolute eigenvalue floor is the known finding, and
    # not for integer-valued classes): an SVD has no unit
    unit = 1.0
    if method != "symeig_svd" and cls not in ("integer",) and np.dtype(dt).kind == "f" and rs.rand() < 0.2:
        unit = float(gen.choice(rs, ([1e-18, 1e12] + ([1e160, 1e-160] if method in ("truncated_svd", "direct_truncated") else [])) if np.dtype(dt) == np.float64 else [1e-9, 1e6]))
        M = (M * np.asarray(unit, dtype=M.dtype)).astype(M.dtype)
        ctx.count("matrices_in_extreme_units")
    if method == "direct_truncated" and unit == 1.0 and rs.rand() < 0.3:   # (svd_interface itself rejects integer dtypes: finfo)
        # data stored in a narrow integer dtype (pixel values, counts): squares must not be formed in that dtype
        idt = gen.choice(rs, ["uint8", "int8", "int16"])
        hi = {"uint8": 256, "int8": 128, "int16": 3000}[idt]
        M = rs.randint(0 if idt == "uint8" else -hi + 1, hi, size=(d1, d2)).astype(idt)
        cls = cls + "+" + idt
        ctx.count("narrow_integer_matrices")
    cplx = False
    if method in ("truncated_svd", "randomized_svd", "callable", "direct_truncated") and np.asarray(M).dtype == np.float64 and unit == 1.0 and rs.rand() < 0.15:
        # complex matrices (unfoldings of complex tensors): U and V unitary, the product still the matrix, the deciding entries real positive
        M = M + 1j * make_matrix(rs, gen.choice(rs, ["generic", "generic", "integer"]), d1, d2, dt)
        cplx = True
        cls = cls + "+complex"
        ctx.count("complex_matrices")
    mx, mn = max(d1, d2), min(d1, d2)
    n_req = gen.choice(rs, [None] + list(range(1, mx + 3)))
    flip = bool(rs.rand() < 0.8)
    ubased = bool(rs.rand() < 0.5)
    nonneg = gen.choice(rs, [None, None, None, None, True, "nndsvd", "nndsvda"]) if (method != "direct_truncated" and not cplx) else None
    seed = int(rs.randint(0, 2 ** 31 - 1))
    desc = {"method": method, "shape": [d1, d2], "class": cls, "dtype": dt, "n_eigenvecs": n_req, "flip_sign": flip,
            "u_based": ubased, "non_negative": nonneg, "unit": unit}
    ctx.count("checked/%s" % method)
    ctx.count("class/%s" % cls)
    if mn > 1:
        ctx.nontriv(desc)
    ctx.sample({"case": desc}, 4)

    sig = np.linalg.svd(ref.hp(M), compute_uv=False)
    smax = float(sig[0]) if sig.size else 0.0
    numrank = int(np.sum(sig > 1e3 * eps * max(smax, 1e-300))) if smax > 0 else 0
    n = mx if n_req is None else min(n_req, mx)

    def np_svd(matrix, n_eigenvecs=None, **kw):
        U, S, V = np.linalg.svd(matrix, full_matrices=True)
        k = n_eigenvecs if n_eigenvecs is not None else max(matrix.shape)
        return U[:, :k], S[:k], V[:k, :]

    def eigh_svd(matrix, n_eigenvecs=None, **kw):
        """a user-supplied SVD for symmetric positive semi-definite input: eigendecomposition, V returned as a *view* of U"""
        wv, Q = np.linalg.eigh(matrix)
        order_ = np.argsort(-wv)
        Q, wv = np.ascontiguousarray(Q[:, order_]), np.clip(wv[order_], 0, None)
        k = n_eigenvecs if n_eigenvecs is not None else matrix.shape[0]
        Qk = np.ascontiguousarray(Q[:, :k])
        return Qk, wv[:k], Qk.T

    use_eigh = False
    if method == "callable" and d1 == d2 and np.dtype(dt) == np.float64 and nonneg is None and not cplx and rs.rand() < 0.5:
        G_ = ref.hp(M) @ ref.hp(M).T
        M = np.asarray(G_ / (np.max(np.abs(G_)) or 1.0), dtype=dt)
        use_eigh = True
        desc["callable"] = "eigh-with-V-a-view-of-U"
        sig = np.linalg.svd(ref.hp(M), compute_uv=False)
        smax = float(sig[0]) if sig.size else 0.0
        numrank = int(np.sum(sig > 1e3 * eps * max(smax, 1e-300))) if smax > 0 else 0
    kw = {}
    n_over = 5
    if method == "randomized_svd":
        kw = {"random_state": seed}
        # the documented tuning knobs: power iterations (0 = none) and oversampling
        ni = gen.choice(rs, [None, None, 0, 1, 4, 8])
        if ni is not None:
            kw["n_iter"] = int(ni)
        if rs.rand() < 0.3:
            n_over = 10
            kw["n_oversamples"] = n_over
        desc["randomized_kwargs"] = {k: v for k, v in kw.items() if k != "random_state"}
    meth_arg = (eigh_svd if use_eigh else np_svd) if method == "callable" else method
    sym = method == "symeig_svd"
    rnd = method == "randomized_svd"
    received = {}
    if method == "callable" and not use_eigh and not cplx and rs.rand() < 0.35:
        # a user's wrapper that takes its options through a catch-all and hands them on to the randomized routine: the interface
        # documents that it forwards its keywords to a callable
        from tensorly.tenalg.svd import randomized_svd as _rsvd

        def kw_svd(matrix, n_eigenvecs=None, **options):
            received.update(options)
            return _rsvd(matrix, n_eigenvecs, **options)
        meth_arg, rnd = kw_svd, True
        n_over = 10
        kw = {"random_state": seed, "n_oversamples": n_over, "n_iter": int(gen.choice(rs, [2, 4]))}
        desc["callable"] = "catch-all-wrapper-around-randomized_svd"
        mcls = "callable"
    mcls = "%s" % method

    def viol(clause, sub, what, wit=None):
        ctx.violation("C05:%s:%s:%s" % (mcls, clause, sub), what, {"desc": desc, "M": M, "detail": wit})

    if method == "direct_truncated":
        U, S, V = truncated_svd(M, n_eigenvecs=n_req)
        flip = False
    else:
        U, S, V = svd_interface(M, method=meth_arg, n_eigenvecs=n_req, flip_sign=flip, u_based_flip_sign=ubased,
                                non_negative=nonneg, **kw)
    U, S, V = np.asarray(U), np.asarray(S), np.asarray(V)
    if desc.get("callable", "").startswith("catch-all"):
        ctx.count("callable_with_catch_all_options")
        lost = [k_ for k_ in ("random_state", "n_oversamples", "n_iter") if k_ not in received]
        if lost:
            ctx.violation("C05:callable:options-forwarded:catch-all", "svd_interface did not hand %s on to a callable that accepts its options through **kwargs" % lost, {"desc": desc, "received": sorted(received)})
            return

    # ---- shapes ------------------------------------------------------------------------------
    ctx.count("clause/shapes")
    exp = ((d1, min(n, d1)), (min(n, d1, d2),), (min(n, d2), d2))
    if rnd:
        # randomized: the reduced matrix has min(n+oversamples, max) rows/cols; documented shapes are the same after clamping
        pass
    if (U.shape, S.shape, V.shape) != exp:
        viol("shapes", "any", "returned shapes U%s S%s V%s, documented %s" % (U.shape, S.shape, V.shape, exp))
        return
    r = S.shape[0]

    if nonneg is not None:
        ctx.count("clause/non-negative")
        bad = (not np.all(np.isfinite(U))) or (not np.all(np.isfinite(V))) or np.any(U < 0) or np.any(V < 0)
        if bad:
            sub = "signed-input" if np.any(M < 0) else "nonneg-input"
            nan = (not np.all(np.isfinite(U))) or (not np.all(np.isfinite(V)))
            viol("non-negative", sub + ("+nan" if nan else ""), "non_negative=%r returned %s entries (min U %r, min V %r)" % (
                nonneg, "NaN" if nan else "negative", np.nanmin(U) if U.size else None, np.nanmin(V) if V.size else None))
        return  # the remaining clauses are about the plain SVD

    if rnd and min(n + n_over, mx) < numrank:
        ctx.skip("randomized_svd: requested rank + oversampling does not cover the matrix rank (outside the guarantee)")
        return

    if not (np.all(np.isfinite(U)) and np.all(np.isfinite(S)) and np.all(np.isfinite(V))):
        viol("finite", "any", "non-finite entries in the returned SVD")
        return

    # ---- singular values -----------------------------------------------------------------------
    ctx.count("clause/singular-values")
    acc = (300 * np.sqrt(eps) * max(smax, 1.0)) if sym else (200 * mx * eps * max(smax, 1e-300) + (1e-300))
    if rnd:
        acc *= 50
    if np.any(S < 0):
        viol("singular-values", "negative", "negative singular value %r" % S.min())
    elif np.any(np.diff(S) > acc):
        viol("singular-values", "order", "singular values not non-increasing: %r" % S)
    elif np.max(np.abs(ref.hp(S) - sig[:r])) > acc if r else False:
        viol("singular-values", "value", "singular values %r differ from the leading true ones %r (tol %.3g)" % (S, sig[:r], acc))

    # ---- orthonormality ---------------------------------------------------------------------------
    ctx.count("clause/orthonormal")
    Uh, Vh = ref.hp(U), ref.hp(V)
    GU = Uh.conj().T @ Uh - np.eye(U.shape[1])
    GV = Vh @ Vh.conj().T - np.eye(V.shape[0])
    if not sym:
        otol = 200 * mx * eps * (50 if rnd else 1)
        if U.size and np.max(np.abs(GU)) > otol:
            viol("orthonormal", "U", "U^T U deviates from I by %.3g (tol %.3g)" % (np.max(np.abs(GU)), otol))
        if V.size and np.max(np.abs(GV)) > otol:
            viol("orthonormal", "V", "V V^T deviates from I by %.3g (tol %.3g)" % (np.max(np.abs(GV)), otol))
    else:
        # eigenvector side is LAPACK-orthonormal; derived side = M v / sigma degrades like eps*(smax/sigma)^2
        derived, G = ("V", GV) if d1 > d2 else ("U", GU)
        eig_side, Ge = ("U", GU) if d1 > d2 else ("V", GV)
        ke = Ge.shape[0]
        se = np.concatenate([sig, np.zeros(max(0, ke - sig.size))])[:ke]
        be = se <= 10 * np.sqrt(eps) * max(smax, 1.0)
        if Ge.size and np.max(np.abs(Ge)) > 200 * mx * eps:
            inner_ = np.abs(Ge)[np.ix_(~be, ~be)]
            if inner_.size and np.max(inner_) > 200 * mx * eps:
                viol("orthonormal", eig_side + "-eigenvector-side", "%s deviates from orthonormal by %.3g" % (eig_side, np.max(inner_)))
            else:
                # only vectors paired with a (numerically) zero singular value are affected: the sign flip multiplies them by
                # sign(garbage derived vector) which can be 0 -- same mechanism as the derived side beyond the numerical rank
                viol("orthonormal", "beyond-numerical-rank", "symeig_svd: %s vectors beyond the numerical rank are not orthonormal after the sign flip (dev %.3g)" % (eig_side, np.max(np.abs(Ge))))
        k = G.shape[0]
        sfull = np.concatenate([sig, np.zeros(max(0, k - sig.size))])[:k]
        strong = sfull >= (eps ** 0.25) * max(smax, 1e-300)
        beyond = sfull <= 10 * np.sqrt(eps) * max(smax, 1.0)
        if k:
            Gs = np.abs(G)
            st = np.where(strong)[0]
            if st.size and np.max(Gs[np.ix_(st, st)]) > 1e4 * np.sqrt(eps):
                viol("orthonormal", derived + "-derived-side-well-separated", "derived-side vectors of well separated singular values are not orthonormal (%.3g)" % np.max(Gs[np.ix_(st, st)]))
            by = np.where(beyond)[0]
            if by.size and (np.max(Gs[by, :]) > 1e4 * np.sqrt(eps)):
                viol("orthonormal", "beyond-numerical-rank", "symeig_svd: derived-side vectors beyond the numerical rank are not orthonormal (dev %.3g)" % np.max(Gs[by, :]))
            if (~strong & ~beyond).any():
                ctx.count("symeig_orthonormality_not_asserted_illconditioned")

    # ---- best approximation: ||M - U_r S_r V_r||^2 == sum of discarded sigma^2 (on squares) -----------------------
    ctx.count("clause/best-approx")
    rec = Uh[:, :r] @ (ref.hp(S)[:, None] * Vh[:r, :])
    err_sq = ref.frob_sq(ref.hp(M) - rec)
    tail_sq = float(np.sum(sig[r:] ** 2))
    tot = float(np.sum(sig ** 2))
    btol = (2e3 * np.sqrt(eps) if sym else 500 * mx * eps * (50 if rnd else 1)) * max(tot, 1e-300)
    if sym:
        btol = max(btol, 2e3 * np.sqrt(eps) * max(1.0, smax) ** 2)
    if abs(err_sq - tail_sq) > btol:
        viol("best-approx", "complex" if cplx else "any", "||M-USV||^2=%r but the discarded singular values sum to %r (tol %.3g)" % (err_sq, tail_sq, btol))

    # ---- sign convention ---------------------------------------------------------------------------------
    if flip:
        ctx.count("clause/sign")
        if ubased:
            vecs = [U[:, j] for j in range(U.shape[1])]
        else:
            vecs = [V[i, :] for i in range(V.shape[0])]
        for j, v in enumerate(vecs):
            if v.size == 0:
                continue
            a = np.abs(v)
            top = a >= a.max() * (1 - 1e-6) - 1e-300
            if cplx:
                if a.max() > 0 and not np.any((v[top].real > 0) & (np.abs(v[top].imag) <= 1e-9 * a.max())):
                    viol("sign", ("U-based" if ubased else "V-based") + "+complex", "deciding vector %d has no largest-magnitude entry that is real and positive: %r" % (j, v))
                    break
                continue
            if a.max() > 0 and not np.any(v[top] > 0):
                viol("sign", "U-based" if ubased else "V-based", "deciding vector %d has its largest-magnitude entry negative: %r" % (j, v))
                break
