"""C15 — library calls never modify caller-owned inputs (mutation sanitizer).

Every public function of the listed tensorly modules (and the fit/predict/transform/fit_transform methods of the
estimator classes) is wrapped by identity re-binding. At call depth 0 — i.e. for calls made by the harness, the
caller — every positional and keyword argument is deep-snapshotted (array bytes + dtype + shape, the base buffer of
views, container lengths and element identities, wrapper-object attributes) before the call and compared after it
returns or raises. Documented in-place parameters are whitelisted by parameter.

Workloads: (a) C15's own hostile argument kinds (transposed views, read-only arrays, lists/tuples/wrappers, masks,
fixed-mode and coefficient lists, user initialisations); (b) fault injection: raising callbacks and backend failpoints
(solve/svd/qr/dot raising on their n-th call) so that calls abort mid-sweep; (c) the workloads of the other properties
replayed under the sanitizer (drivers).
"""
import importlib
import inspect
import threading
import types

import numpy as np

from ..core import gen, ref, decomp, probe

ID = "C15"
RULE = ("calls made by the harness to wrapped public entry points; each depth-0 call with at least one array/container argument is "
        "one observation; non-trivial = the call had a mutable argument (array, list, dict or wrapper object); distinct = distinct "
        "(entry point, argument-kind signature) pairs plus distinct own-generator descriptors")
ASSUMPTIONS = ["whitelisted in-place parameters: cp_mode_dot/tucker_mode_dot(copy=False) tensor argument, hals_nnls(V=...), index_update's first "
               "argument, .normalize()/mode_dot(copy=False) methods on the object itself", "random generators passed as RandomState are expected to advance",
               "only depth-0 calls (the harness is the caller) are judged; inner library-to-library calls own their arguments"]
MODULES = ["tensorly.base", "tensorly.cp_tensor", "tensorly.tucker_tensor", "tensorly.tt_tensor", "tensorly.tr_tensor", "tensorly.tt_matrix",
           "tensorly.parafac2_tensor", "tensorly.preprocessing", "tensorly.random.base",
           "tensorly.decomposition._cp", "tensorly.decomposition._nn_cp", "tensorly.decomposition._constrained_cp", "tensorly.decomposition._tucker",
           "tensorly.decomposition._parafac2", "tensorly.decomposition._tt", "tensorly.decomposition._tr_svd", "tensorly.decomposition._tr_als",
           "tensorly.decomposition._cmtf_als", "tensorly.decomposition._cp_power", "tensorly.decomposition._symmetric_cp", "tensorly.decomposition.robust_decomposition",
           "tensorly.solvers.nnls", "tensorly.solvers.admm", "tensorly.solvers.penalizations", "tensorly.tenalg.proximal", "tensorly.tenalg.svd",
           "tensorly.tenalg.core_tenalg.n_mode_product", "tensorly.tenalg.core_tenalg._khatri_rao", "tensorly.tenalg.core_tenalg._kronecker",
           "tensorly.tenalg.core_tenalg.mttkrp", "tensorly.tenalg.core_tenalg.generalised_inner_product", "tensorly.tenalg.core_tenalg.outer_product",
           "tensorly.tenalg.core_tenalg._batched_tensordot", "tensorly.tenalg.core_tenalg.moments", "tensorly.tenalg.core_tenalg._tt_matrix",
           "tensorly.tenalg.einsum_tenalg.n_mode_product", "tensorly.tenalg.einsum_tenalg._khatri_rao", "tensorly.tenalg.einsum_tenalg._kronecker",
           "tensorly.tenalg.einsum_tenalg.mttkrp", "tensorly.tenalg.einsum_tenalg.generalised_inner_product", "tensorly.tenalg.einsum_tenalg.outer_product",
           "tensorly.tenalg.einsum_tenalg._batched_tensordot", "tensorly.tenalg.einsum_tenalg.moments", "tensorly.tenalg.einsum_tenalg._tt_matrix",
           "tensorly.metrics.factors", "tensorly.metrics.similarity", "tensorly.metrics.regression", "tensorly.metrics.leverage_scores", "tensorly.metrics.entropy",
           "tensorly.contrib.decomposition._tt_cross", "tensorly.contrib.decomposition.tt_TTOI"]
WHITELIST = {("cp_mode_dot", "cp_tensor"): lambda kw: not kw.get("copy", False), ("tucker_mode_dot", "tucker_tensor"): lambda kw: not kw.get("copy", False),
             ("hals_nnls", "V"): lambda kw: True}
DRIVERS = ["c02", "c03", "c04", "c05", "c06", "c10", "c11", "c12", "c13", "c14", "c19", "c20"]
OWN = ["own_decomp", "own_fault", "own_misc", "own_api"]
CASE_TIMEOUT = {"quick": 180, "thorough": 3000}
WALL_BUDGET = {"quick": 900, "thorough": 5400}

_TL = threading.local()
_STATE = {"ctx": None, "installed": False}


# ------------------------------------------------------------------------------------------------------------
# snapshots
def snap(o, depth=0, seen=None):
    from tensorly.cp_tensor import CPTensor
    from tensorly.tucker_tensor import TuckerTensor
    from tensorly.parafac2_tensor import Parafac2Tensor
    from tensorly.tt_tensor import TTTensor
    from tensorly.tr_tensor import TRTensor
    from tensorly.tt_matrix import TTMatrix
    seen = seen if seen is not None else {}
    if depth > 6:
        return ("deep",)
    if isinstance(o, np.ndarray):
        if id(o) in seen:
            return ("ref", id(o))
        seen[id(o)] = True
        s = ("arr", str(o.dtype), o.shape, np.ascontiguousarray(o).tobytes() if o.dtype != object else repr(o.tolist()))
        b = o.base
        if isinstance(b, np.ndarray) and b.size <= 1_000_000:
            return s + (("base", b.shape, np.ascontiguousarray(b).tobytes() if b.dtype != object else ""),)
        return s
    if isinstance(o, (CPTensor, TuckerTensor, Parafac2Tensor, TTTensor, TRTensor, TTMatrix)):
        d = vars(o)
        return ("obj", type(o).__name__, tuple((k, id(v) if isinstance(v, (list, np.ndarray)) else None, snap(v, depth + 1, seen)) for k, v in sorted(d.items())))
    if isinstance(o, list):
        return ("list", tuple(id(x) for x in o), tuple(snap(x, depth + 1, seen) for x in o))
    if isinstance(o, tuple):
        return ("tuple", tuple(snap(x, depth + 1, seen) for x in o))
    if isinstance(o, dict):
        return ("dict", tuple((repr(k), snap(v, depth + 1, seen)) for k, v in sorted(o.items(), key=lambda kv: repr(kv[0]))))
    if isinstance(o, set):
        return ("set", tuple(sorted(repr(x) for x in o)))
    if isinstance(o, (int, float, complex, str, bool, type(None), np.generic)):
        return ("val", repr(o))
    return ("opaque", type(o).__name__)


def mutable(o):
    from tensorly._factorized_tensor import FactorizedTensor
    if isinstance(o, (np.ndarray, list, dict, set, FactorizedTensor)):
        return True
    if isinstance(o, tuple):
        return any(mutable(x) for x in o)
    return False


def kind_of(o):
    if isinstance(o, np.ndarray):
        k = "array"
        if not o.flags.writeable:
            k += "-readonly"
        if o.base is not None:
            k += "-view"
        return k
    if isinstance(o, (list, tuple)):
        return type(o).__name__ + "[" + ",".join(sorted({kind_of(x) for x in o})) + "]"
    return type(o).__name__


def describe_diff(a, b, path="arg"):
    if a == b:
        return None
    if a[0] != b[0]:
        return "%s: kind changed %s -> %s" % (path, a[0], b[0])
    if a[0] == "arr":
        if a[1:3] != b[1:3]:
            return "%s: dtype/shape changed %s -> %s" % (path, a[1:3], b[1:3])
        if a[3] != b[3]:
            return "%s: array content changed" % path
        return "%s: base buffer of the view changed" % path
    if a[0] == "list":
        if a[1] != b[1]:
            return "%s: list elements replaced/added/removed (len %d -> %d)" % (path, len(a[1]), len(b[1]))
        for i, (x, y) in enumerate(zip(a[2], b[2])):
            d = describe_diff(x, y, "%s[%d]" % (path, i))
            if d:
                return d
    if a[0] == "tuple":
        for i, (x, y) in enumerate(zip(a[1], b[1])):
            d = describe_diff(x, y, "%s[%d]" % (path, i))
            if d:
                return d
    if a[0] == "obj":
        for (k, i1, s1), (k2, i2, s2) in zip(a[2], b[2]):
            if i1 != i2:
                return "%s.%s: attribute rebound to another object" % (path, k)
            d = describe_diff(s1, s2, "%s.%s" % (path, k))
            if d:
                return d
    if a[0] == "dict":
        return "%s: dict content changed" % path
    return "%s: changed" % path


TENSOR_OBJECTS = {"CPTensor", "TuckerTensor", "TTTensor", "TRTensor", "TTMatrix", "Parafac2Tensor"}
# methods that document changing the object they are called on (and when): normalize() unless inplace=False is asked for, mode_dot with
# copy=False (TuckerTensor's default), item assignment, construction
SELF_MUTATORS = {"normalize": lambda cls, kw: bool(kw.get("inplace", True)),
                 "mode_dot": lambda cls, kw: not kw.get("copy", cls == "CPTensor"),
                 "__setitem__": lambda cls, kw: True, "__init__": lambda cls, kw: True}


# ------------------------------------------------------------------------------------------------------------
def make_sanitizer(qualname, is_method=False):
    short = qualname.split(".")[-1]

    def make(fn):
        try:
            sig = inspect.signature(fn)
        except (TypeError, ValueError):
            sig = None

        def wrapper(*a, **k):
            depth = getattr(_TL, "depth", 0)
            ctx = _STATE["ctx"]
            if depth > 0 or ctx is None or getattr(_TL, "off", False):
                _TL.depth = depth + 1
                try:
                    return fn(*a, **k)
                finally:
                    _TL.depth = depth
            # bind names to arguments
            named = {}
            try:
                ba = sig.bind(*a, **k) if sig is not None else None
                if ba is not None:
                    named = dict(ba.arguments)
            except TypeError:
                named = {}
            if not named:
                named = {"arg%d" % i: x for i, x in enumerate(a)}
                named.update(k)
            flat = {}
            for pname, val in named.items():
                p = sig.parameters.get(pname) if sig is not None else None
                if p is not None and p.kind == inspect.Parameter.VAR_KEYWORD:
                    flat.update(val)
                elif p is not None and p.kind == inspect.Parameter.VAR_POSITIONAL:
                    flat.update({"%s[%d]" % (pname, i): x for i, x in enumerate(val)})
                else:
                    flat[pname] = val
            watched = {}
            kwv = dict(flat)
            for pname, val in flat.items():
                if is_method and pname == "self":
                    # the object a method is called on is the caller's too, unless the method is one that documents changing it
                    mut = SELF_MUTATORS.get(short)
                    if type(val).__name__ not in TENSOR_OBJECTS or (mut is not None and mut(type(val).__name__, kwv)):
                        continue
                    watched[pname] = (val, snap(val))
                    continue
                if not mutable(val):
                    continue
                wl = WHITELIST.get((short, pname))
                if wl is not None and wl(kwv):
                    continue
                watched[pname] = (val, snap(val))
            _TL.depth = 1
            raised = None
            try:
                return fn(*a, **k)
            except BaseException as e:  # noqa
                raised = e
                raise
            finally:
                _TL.depth = 0
                if watched:
                    ctx.count("calls_observed")
                    ctx.count("entry/%s" % qualname.replace("tensorly.", ""))
                    if raised is not None:
                        ctx.count("calls_observed_that_raised")
                    sigk = "%s(%s)" % (short, ",".join("%s:%s" % (p, kind_of(v[0])) for p, v in sorted(watched.items())))
                    ctx.nontriv(sigk)
                    for pname, (val, before) in watched.items():
                        after = snap(val)
                        if after != before:
                            why = describe_diff(before, after, pname)
                            ctx.violation("C15:%s:argument-modified:%s" % (short, pname),
                                          "%s modified its caller-owned argument `%s` (%s)%s" % (qualname, pname, why, " [call raised %s]" % type(raised).__name__ if raised is not None else ""),
                                          {"entry": qualname, "param": pname, "kinds": sigk, "driver_case": getattr(_TL, "driver_case", None)})
        for attr in ("__module__", "__name__", "__qualname__", "__doc__"):
            try:
                setattr(wrapper, attr, getattr(fn, attr))
            except AttributeError:
                pass
        wrapper.__wrapped__ = fn
        try:
            wrapper.__signature__ = sig
        except Exception:  # noqa
            pass
        return wrapper
    return make


def setup_worker(ctx, tier, seed):
    import tensorly  # noqa
    n_funcs = n_bind = 0
    for mn in MODULES:
        mod = importlib.import_module(mn)
        for name, val in list(vars(mod).items()):
            if isinstance(val, types.FunctionType) and val.__module__ == mod.__name__ and not name.startswith("__"):
                if name in ("index_update",):
                    continue
                nb, _ = probe.install(val, make_sanitizer("%s.%s" % (mn, name)))
                n_funcs += 1
                n_bind += nb
    # estimator / decomposition classes
    from tensorly.regression.cp_regression import CPRegressor
    from tensorly.regression.tucker_regression import TuckerRegressor
    from tensorly.regression.cp_plsr import CP_PLSR
    from tensorly import decomposition as D
    classes = [CPRegressor, TuckerRegressor, CP_PLSR] + [getattr(D, n) for n in dir(D) if isinstance(getattr(D, n), type) and hasattr(getattr(D, n), "fit_transform")]
    for cls in classes:
        for meth in ("fit", "predict", "transform", "fit_transform", "score"):
            f = cls.__dict__.get(meth)
            if isinstance(f, types.FunctionType):
                setattr(cls, meth, make_sanitizer("%s.%s" % (cls.__name__, meth), is_method=True)(f))
                n_funcs += 1
    # the factorised-tensor objects' own public methods (the object itself is a caller-owned argument of the non-mutating ones)
    from tensorly.cp_tensor import CPTensor as _CP
    from tensorly.tucker_tensor import TuckerTensor as _TK
    from tensorly.tt_tensor import TTTensor as _TT
    from tensorly.tr_tensor import TRTensor as _TR
    from tensorly.tt_matrix import TTMatrix as _TTM
    from tensorly.parafac2_tensor import Parafac2Tensor as _P2
    for cls in (_CP, _TK, _TT, _TR, _TTM, _P2):
        for meth, f in list(cls.__dict__.items()):
            if isinstance(f, types.FunctionType) and not meth.startswith("_"):
                setattr(cls, meth, make_sanitizer("%s.%s" % (cls.__name__, meth), is_method=True)(f))
                n_funcs += 1
    ctx.count("functions_wrapped", n_funcs)
    ctx.count("bindings_replaced", n_bind)
    _STATE["ctx"] = ctx
    _STATE["installed"] = True


def plan(tier, seed):
    per = 250 if tier == "quick" else 2500
    cases = []
    for d in DRIVERS:
        m = importlib.import_module("tlv.props." + d)
        p = m.plan("quick", seed)
        import random
        random.Random(99).shuffle(p)
        for c in p[:per]:
            cases.append({"gen": "driver_" + d, "driver": d, "case": c, "seed": seed})
    for i in range(per * 6):
        cases.append({"gen": OWN[i % len(OWN)], "idx": i, "seed": seed})
    if tier == "thorough":
        cases.append({"gen": "ambient", "seed": seed})   # the repository's own test-suite under the sanitizer
    return cases


def floors(tier):
    return {"calls_observed": 8000, "calls_observed_that_raised": 100, "functions_wrapped": 150, "own/fault_injected": 40, "own/readonly_args": 40,
            "own/view_args": 40, "own/option_lists": 40, "own/api_base": 20, "own/api_random": 10, "own/api_svd_helpers": 10}


def bounds(tier):
    return {"modules_wrapped": len(MODULES), "drivers": DRIVERS}


class NullCtx:
    """drivers' own verdicts are not C15's business: swallow them, keep the sanitizer's"""
    pid = "X"

    def __getattr__(self, name):
        return lambda *a, **k: None


def run_case(case, ctx):
    import warnings
    warnings.simplefilter("ignore")
    g = case["gen"]
    if g.startswith("driver_"):
        m = importlib.import_module("tlv.props." + case["driver"])
        _TL.driver_case = {"driver": case["driver"], "case": case["case"]}
        try:
            m.run_case(case["case"], NullCtx())
        except Exception:  # noqa: a driver failing is not a C15 verdict
            ctx.count("driver_case_raised")
        finally:
            _TL.driver_case = None
        ctx.count("driver_cases/%s" % case["driver"])
        return
    if g == "ambient":
        ambient(ctx, "C15")
        return
    rs = gen.rng(case["seed"], case["idx"], g)
    _TL.driver_case = {"own": g, "idx": case["idx"]}
    try:
        own(g, rs, ctx)
    except (np.linalg.LinAlgError, InjectedFault, InjectedInterrupt):
        pass
    except ValueError as e:
        if "read-only" in str(e):
            ctx.violation("C15:read-only-input:write-attempt:%s" % _TL.__dict__.get("last_entry", "unknown"),
                          "the library tried to write into a read-only caller array: %s" % str(e)[:150], {"gen": g, "idx": case["idx"], "entry": _TL.__dict__.get("last_entry")})
        # other ValueErrors: documented rejections of the generated configuration
    finally:
        _TL.driver_case = None


class InjectedFault(Exception):
    pass


class InjectedInterrupt(BaseException):
    """an early exit that is not an Exception (KeyboardInterrupt-like): clean-up written as `except Exception` does not see it"""


def argkind(rs, a, ctx):
    """hostile memory kinds for a caller-owned array"""
    k = gen.choice(rs, ["plain", "view", "readonly", "fortran"])
    if k == "view" and a.ndim >= 2:
        ctx.count("own/view_args")
        perm = list(range(1, a.ndim)) + [0]
        inv = np.argsort(perm)
        return np.ascontiguousarray(a.transpose(perm)).transpose(inv)
    if k == "readonly":
        ctx.count("own/readonly_args")
        b = a.copy()
        b.setflags(write=False)
        return b
    if k == "fortran":
        return np.asfortranarray(a)
    return a.copy()


def own(g, rs, ctx):
    import tensorly as tl
    from tensorly import decomposition as D
    from tensorly.cp_tensor import CPTensor
    from tensorly.tucker_tensor import TuckerTensor
    order = int(rs.randint(3, 5))
    shp = gen.shape(rs, order, 2, 5)
    R = int(rs.randint(1, 4))
    X = argkind(rs, np.abs(rs.standard_normal(shp)) + 0.1, ctx)
    seed = int(rs.randint(0, 2 ** 31 - 1))
    it = int(rs.randint(1, 4))

    def cp_init(nonneg=True, form=None):
        fs = [argkind(rs, rs.uniform(0.1, 1, (s, R)), ctx) for s in shp]
        w = rs.uniform(0.5, 2, R) if rs.rand() < 0.5 else np.ones(R)
        form = form or gen.choice(rs, ["tuple", "list", "wrapper"])
        if form == "tuple":
            return (w, fs)
        if form == "list":
            return [w, fs]
        return CPTensor((w, fs))

    def fixed():
        ctx.count("own/option_lists")
        k = int(rs.randint(1, order + 1))
        return sorted(rs.choice(order, size=k, replace=False).tolist())

    if g == "own_decomp":
        which = gen.choice(rs, ["parafac", "parafac_mask", "nn_parafac", "nn_parafac_hals", "constrained", "tucker_init", "partial_tucker_init", "nn_tucker", "nn_tucker_hals",
                                "parafac2", "robust_pca", "cmtf", "tr_als", "tensor_train", "randomised"])
        _TL.last_entry = which
        if which == "parafac":
            D.parafac(X, R, n_iter_max=it, init=cp_init(False), fixed_modes=fixed() if rs.rand() < 0.6 else None, normalize_factors=bool(rs.rand() < 0.3),
                      linesearch=bool(rs.rand() < 0.2), random_state=seed, orthogonalise=gen.choice(rs, [False, False, True, 2]))
        elif which == "parafac_mask":
            mask = argkind(rs, (rs.uniform(size=shp) < 0.8).astype(float), ctx)
            Xm_ = X
            if rs.rand() < 0.4:
                # the unobserved cells hold NaN placeholders (as they come out of a data frame): whatever the call makes of them,
                # they are the caller's
                Xm_ = np.array(X, dtype=float, copy=True)
                Xm_[np.asarray(mask) == 0] = np.nan
                ctx.count("own/nan_placeholders")
            try:
                D.parafac(Xm_, R, n_iter_max=it, init=gen.choice(rs, ["svd", "random"]), mask=mask, random_state=seed)
            except (np.linalg.LinAlgError, ValueError):
                ctx.count("own/nan_placeholders_raised")
        elif which == "nn_parafac":
            D.non_negative_parafac(X, R, n_iter_max=it, init=cp_init(), fixed_modes=fixed() if rs.rand() < 0.6 else None, random_state=seed,
                                   mask=argkind(rs, (rs.uniform(size=shp) < 0.8).astype(float), ctx) if rs.rand() < 0.3 else None)
        elif which == "nn_parafac_hals":
            ctx.count("own/option_lists")
            D.non_negative_parafac_hals(X, R, n_iter_max=it, init=cp_init(), fixed_modes=fixed() if rs.rand() < 0.6 else None,
                                        sparsity_coefficients=[float(rs.choice([0.0, 0.1, 0.5])) for _ in range(order)] if rs.rand() < 0.6 else None, random_state=seed)
        elif which == "constrained":
            ctx.count("own/option_lists")
            spec = gen.choice(rs, [{"non_negative": True}, {"l1_reg": [0.1] * order}, {"simplex": {0: 1.0}}, {"non_negative": [True] + [None] * (order - 1)}])
            D.constrained_parafac(X, R, n_iter_max=it, init=cp_init(form=gen.choice(rs, ["tuple", "wrapper"])), fixed_modes=fixed() if rs.rand() < 0.5 else None, random_state=seed, **spec)
        elif which in ("tucker_init", "partial_tucker_init", "nn_tucker", "nn_tucker_hals"):
            rk = [int(rs.randint(1, min(s, 3) + 1)) for s in shp]
            core = argkind(rs, rs.uniform(0.1, 1, rk), ctx)
            fs = [argkind(rs, gen.orth(rs, s, r) if which.startswith(("tucker", "partial")) else rs.uniform(0.1, 1, (s, r)), ctx) for s, r in zip(shp, rk)]
            init = gen.choice(rs, [(core, fs), [core, fs], TuckerTensor((core, fs))])
            if which == "tucker_init":
                D.tucker(X, rk, n_iter_max=it, init=init, fixed_factors=fixed()[:order - 1] if rs.rand() < 0.5 else None, random_state=seed)
            elif which == "partial_tucker_init":
                D.partial_tucker(X, rk, modes=list(range(order)), n_iter_max=it, init=init, random_state=seed)
            elif which == "nn_tucker":
                D.non_negative_tucker(X, rk, n_iter_max=it, init=init, random_state=seed)
            else:
                ctx.count("own/option_lists")
                D.non_negative_tucker_hals(X, rk, n_iter_max=it, init=init, fixed_modes=[m for m in fixed()] if rs.rand() < 0.5 else None,
                                           sparsity_coefficients=[float(rs.choice([0.0, 0.1])) for _ in range(order)] if rs.rand() < 0.5 else None, random_state=seed,
                                           algorithm=gen.choice(rs, ["fista", "active_set"]))
        elif which == "parafac2":
            K = int(rs.randint(3, 6))
            r2 = int(rs.randint(1, min(3, K) + 1))
            sl = [argkind(rs, np.abs(rs.standard_normal((int(rs.randint(r2 + 1, 7)), K))), ctx) for _ in range(3)]
            sl = gen.choice(rs, [sl, tuple(sl)])
            D.parafac2(sl, r2, n_iter_max=it + 6, init=gen.choice(rs, ["random", "svd"]), nn_modes=gen.choice(rs, [None, [0, 2]]), random_state=seed)
        elif which == "robust_pca":
            D.robust_pca(X, mask=argkind(rs, (rs.uniform(size=shp) < 0.9).astype(float), ctx) if rs.rand() < 0.5 else None, n_iter_max=3)
        elif which == "cmtf":
            from tensorly.decomposition._cmtf_als import coupled_matrix_tensor_3d_factorization as cm
            X3 = argkind(rs, rs.standard_normal(gen.shape(rs, 3, 3, 5)), ctx)
            cm(X3, argkind(rs, rs.standard_normal((X3.shape[0], 3)), ctx), 2, n_iter_max=it)
        elif which == "tr_als":
            D.tensor_ring_als(X, [1] + [2] * (order - 1) + [1], n_iter_max=it, random_state=seed)
        elif which == "tensor_train":
            ctx.count("own/option_lists")
            D.tensor_train(X, [1] + [2] * (order - 1) + [1])
            D.tensor_ring(X, [1] + [2] * (order - 1) + [1])
        else:
            D.randomised_parafac(X, R, 10, n_iter_max=it, random_state=seed, max_stagnation=0)
        return
    if g == "own_fault":
        ctx.count("own/fault_injected")
        fault_cls = InjectedFault if rs.rand() < 0.7 else InjectedInterrupt
        mode = gen.choice(rs, ["callback", "failpoint", "failpoint"])
        if mode == "callback":
            k = int(rs.randint(0, 4))
            cnt = [0]

            def cb(*a, **kw):
                cnt[0] += 1
                if cnt[0] > k:
                    raise fault_cls("callback raises at call %d" % cnt[0])
            which = gen.choice(rs, ["parafac", "tr_als", "hals_nnls"])
            _TL.last_entry = which
            if which == "parafac":
                D.parafac(X, R, n_iter_max=6, init=cp_init(False), callback=cb, random_state=seed)
            elif which == "tr_als":
                D.tensor_ring_als(X, [1] + [2] * (order - 1) + [1], n_iter_max=6, callback=cb, random_state=seed)
            else:
                from tensorly.solvers.nnls import hals_nnls
                U = np.abs(rs.standard_normal((6, 3)))
                hals_nnls(argkind(rs, U.T @ rs.standard_normal((6, 2)), ctx), argkind(rs, U.T @ U, ctx), n_iter_max=6, callback=cb)
            return
        # backend failpoint: the n-th call of a backend primitive raises
        name = gen.choice(rs, ["solve", "svd", "qr", "dot", "lstsq"])
        nth = int(rs.randint(1, 12))
        inst = tl.backend.BackendManager.current_backend()
        orig = getattr(inst, name)
        cnt = [0]

        def failing(*a, **kw):
            cnt[0] += 1
            if cnt[0] == nth:
                raise fault_cls("%s failpoint at call %d" % (name, nth))
            return orig(*a, **kw)
        setattr(inst, name, failing)
        which = gen.choice(rs, ["parafac", "nn_parafac_hals", "tucker", "constrained", "parafac2", "nn_tucker_hals", "tensor_train"])
        _TL.last_entry = which + "+failpoint"
        try:
            if which == "parafac":
                D.parafac(X, R, n_iter_max=4, init=cp_init(False), fixed_modes=fixed() if rs.rand() < 0.5 else None, random_state=seed)
            elif which == "nn_parafac_hals":
                D.non_negative_parafac_hals(X, R, n_iter_max=4, init=cp_init(), sparsity_coefficients=[0.1] * order, random_state=seed)
            elif which == "tucker":
                rk = [min(2, s) for s in shp]
                D.tucker(X, rk, n_iter_max=4, init=(rs.standard_normal(rk), [gen.orth(rs, s, r) for s, r in zip(shp, rk)]), random_state=seed)
            elif which == "constrained":
                D.constrained_parafac(X, R, n_iter_max=4, init=cp_init(form="tuple"), non_negative=True, random_state=seed)
            elif which == "parafac2":
                sl = [np.abs(rs.standard_normal((int(rs.randint(3, 7)), 4))) for _ in range(3)]
                D.parafac2(sl, 2, n_iter_max=8, random_state=seed)
            elif which == "nn_tucker_hals":
                rk = [min(2, s) for s in shp]
                D.non_negative_tucker_hals(X, rk, n_iter_max=3, init=(rs.uniform(0.1, 1, rk), [rs.uniform(0.1, 1, (s, r)) for s, r in zip(shp, rk)]), random_state=seed)
            else:
                D.tensor_train(X, 2)
        finally:
            try:
                delattr(inst, name)
            except AttributeError:
                setattr(inst, name, orig)
        return
    if g == "own_api":
        # public entry points that no driver calls directly (audit of the per-entry call counts in the evidence): index
        # manipulations, random generators, initialisers, remaining decompositions and SVD helpers, each with caller-owned
        # arrays, lists of shapes / ranks / modes and user initialisations
        import tensorly.random as RND
        from tensorly.tenalg import svd as S
        from tensorly.decomposition import _cp, _tucker, _parafac2, _constrained_cp, _tr_als, _cp_power, _symmetric_cp
        from tensorly import parafac2_tensor as p2m, cp_tensor as cpm_
        which = gen.choice(rs, ["base", "base", "random", "init_cp", "init_tucker", "init_constrained", "init_parafac2", "ttm", "tr_sampled", "power",
                                "sym_power", "lstsq_grad", "p2_apply", "svd_helpers", "validate", "contrib", "methods", "entropy", "backend_linalg", "backend_linalg"])
        _TL.last_entry = "api:" + which
        ctx.count("own/api_" + which)
        Xs = argkind(rs, rs.standard_normal(shp), ctx)
        if which == "base":
            shape_l = list(shp)
            for mode in range(order):
                U = tl.unfold(Xs, mode)
                tl.fold(argkind(rs, np.array(U), ctx), mode, shape_l)
            v = tl.tensor_to_vec(Xs)
            tl.vec_to_tensor(argkind(rs, np.array(v), ctx), shape_l)
            pu = tl.partial_unfold(Xs, 0, skip_begin=1, skip_end=0, ravel_tensors=bool(rs.rand() < 0.5))
            tl.partial_fold(tl.partial_unfold(Xs, 0, skip_begin=1), 0, shape_l, skip_begin=1)
            pv = tl.partial_tensor_to_vec(Xs, skip_begin=1)
            tl.partial_vec_to_tensor(argkind(rs, np.array(pv), ctx), shape_l, skip_begin=1)
            rows, cols = [order - 1, 0], [m_ for m_ in range(1, order - 1)]
            tl.base.matricize(Xs, rows, cols)
            tl.base.matricize(Xs, rows)
            del pu
        elif which == "random":
            shape_l, rank_l = list(shp), [2] * order
            RND.random_cp(shape_l, 2, random_state=seed)
            RND.random_tucker(shape_l, rank_l, random_state=seed)
            RND.random_tt(shape_l, [1] + [2] * (order - 1) + [1], random_state=seed)
            RND.random_tr(shape_l, [2] * (order + 1), random_state=seed)
            RND.random_tt_matrix([2, 3, 2, 3], [1, 2, 1], random_state=seed)
            RND.random_parafac2([(4, 3), (5, 3), (3, 3)], 2, random_state=seed)
            RND.random_tensor(shape_l, random_state=seed)
        elif which == "init_cp":
            init = cp_init(False)
            _cp.initialize_cp(Xs, R, init=init, normalize_factors=bool(rs.rand() < 0.5), random_state=seed)
            _cp.initialize_cp(X, R, init=cp_init(True), non_negative=True, random_state=seed)
            _cp.initialize_cp(Xs, R, init="svd", mask=argkind(rs, (rs.uniform(size=shp) < 0.8).astype(float), ctx), random_state=seed)
        elif which == "init_tucker":
            rk = [min(2, s) for s in shp]
            core = argkind(rs, rs.standard_normal(rk), ctx)
            fs_ = [argkind(rs, gen.orth(rs, s, r), ctx) for s, r in zip(shp, rk)]
            modes_l = list(range(order))
            _tucker.initialize_tucker(Xs, rk, modes_l, seed, init=gen.choice(rs, [(core, fs_), [core, fs_], TuckerTensor((core, fs_))]))
            _tucker.initialize_tucker(Xs, rk, modes_l, seed, init="svd", mask=argkind(rs, (rs.uniform(size=shp) < 0.8).astype(float), ctx))
            _tucker.initialize_tucker(X, rk[:2], [0, order - 1], seed, init="random", non_negative=True)
        elif which == "init_constrained":
            _constrained_cp.initialize_constrained_parafac(X, R, init=cp_init(form=gen.choice(rs, ["tuple", "wrapper"])), non_negative=True, random_state=seed)
            _constrained_cp.initialize_constrained_parafac(Xs, R, init="svd", l1_reg=[0.1] * order, random_state=seed)
        elif which == "init_parafac2":
            K = 4
            sl = [argkind(rs, rs.standard_normal((int(rs.randint(3, 6)), K)), ctx) for _ in range(3)]
            r2 = 2
            init = (None, [rs.standard_normal((3, r2)), rs.standard_normal((r2, r2)), rs.standard_normal((K, r2))], [gen.orth(rs, s_.shape[0], r2) for s_ in sl])
            _parafac2.initialize_decomposition(sl, r2, init=gen.choice(rs, [init, "svd", "random"]), random_state=seed)
        elif which == "ttm":
            Xm = argkind(rs, rs.standard_normal((2, 3, 3, 2)), ctx)
            D.tensor_train_matrix(Xm, [1, 2, 1])
            D.tensor_train_matrix(Xm, 3)
        elif which == "tr_sampled":
            D.tensor_ring_als_sampled(Xs, [2] * (order + 1), [8] * order, n_iter_max=2, random_state=seed, uniform_sampling=bool(rs.rand() < 0.5))
        elif which == "power":
            D.parafac_power_iteration(Xs, 2, n_repeat=2, n_iteration=2)
            _cp_power.power_iteration(Xs, n_repeat=2, n_iteration=2)
        elif which == "sym_power":
            a = rs.standard_normal((3, 2))
            Xsym = argkind(rs, np.einsum("ir,jr,kr->ijk", a, a, a), ctx)
            D.symmetric_parafac_power_iteration(Xsym, 2, n_repeat=2, n_iteration=2)
            _symmetric_cp.symmetric_power_iteration(Xsym, n_repeat=2, n_iteration=2)
        elif which == "lstsq_grad":
            cp = cp_init(False)
            cpm_.cp_lstsq_grad(cp, Xs, return_loss=bool(rs.rand() < 0.5), mask=argkind(rs, (rs.uniform(size=shp) < 0.8).astype(float), ctx) if rs.rand() < 0.5 else None)
        elif which == "p2_apply":
            K, r2 = 4, 2
            J = [int(rs.randint(3, 6)) for _ in range(3)]
            tup = (rs.uniform(0.5, 2, r2), [argkind(rs, rs.standard_normal((3, r2)), ctx), argkind(rs, rs.standard_normal((r2, r2)), ctx), argkind(rs, rs.standard_normal((K, r2)), ctx)],
                   [argkind(rs, gen.orth(rs, j, r2), ctx) for j in J])
            p2m.apply_parafac2_projections(tup)
            p2m.parafac2_to_slice(tup, 1)
            p2m.parafac2_to_unfolded(tup, 1)
            p2m.parafac2_to_vec(tup)
        elif which == "backend_linalg":
            # backend primitives a caller may use directly: LAPACK-backed routines must not work in place on the caller's array,
            # whatever its memory order (Fortran-ordered, transposed, single column)
            from tensorly.parafac2_tensor import Parafac2Tensor
            Mq = rs.standard_normal((int(rs.randint(3, 7)), int(rs.randint(1, 4))))
            Mq = gen.choice(rs, [np.asfortranarray(Mq), np.ascontiguousarray(Mq.T).T, Mq.copy(), Mq[:, :1].copy()])
            Ms = rs.standard_normal((4, 4)) + 4 * np.eye(4)
            Ms = np.asfortranarray(Ms) if rs.rand() < 0.5 else Ms
            rhs = np.asfortranarray(rs.standard_normal((4, 2)))
            G_ = Ms @ Ms.T
            cpB = CPTensor((rs.uniform(0.5, 2, 2), [np.asfortranarray(rs.standard_normal((s_, 2))) for s_ in (3, 5, 4)]))
            # these entry points are not module-level functions (backend methods, a classmethod): judged here directly
            for nm_, call_, args_ in (("tl.qr", lambda: tl.qr(Mq), [Mq]), ("tl.solve", lambda: tl.solve(Ms, rhs), [Ms, rhs]), ("tl.lstsq", lambda: tl.lstsq(Ms, rhs), [Ms, rhs]),
                                      ("tl.svd", lambda: tl.svd(Ms), [Ms]), ("tl.eigh", lambda: tl.eigh(G_), [G_]),
                                      ("Parafac2Tensor.from_CPTensor", lambda: Parafac2Tensor.from_CPTensor(cpB), [cpB.weights] + list(cpB.factors))):
                before_ = [snap(a_) for a_ in args_]
                call_()
                ctx.count("calls_observed")
                ctx.count("entry/%s" % nm_)
                for a_, b_ in zip(args_, before_):
                    if snap(a_) != b_:
                        ctx.violation("C15:%s:argument-modified:array" % nm_.split(".")[-1], "%s modified a caller-owned array (flags %s, shape %s)" % (
                            nm_, "F" if a_.flags.f_contiguous and not a_.flags.c_contiguous else ("C+F" if a_.flags.f_contiguous else "C"), a_.shape), {"entry": nm_})
                        return
        elif which == "svd_helpers":
            M = argkind(rs, rs.standard_normal((int(rs.randint(3, 7)), int(rs.randint(3, 7)))), ctx)
            k = 2
            S.symeig_svd(M, n_eigenvecs=k)
            S.randomized_svd(M, n_eigenvecs=k, random_state=seed)
            S.randomized_range_finder(M, k, random_state=seed)
            U, s_, V = S.truncated_svd(M, n_eigenvecs=k)
            Uc, Vc = argkind(rs, np.array(U), ctx), argkind(rs, np.array(V), ctx)
            S.svd_flip(Uc, Vc, u_based_decision=bool(rs.rand() < 0.5))
            S.make_svd_non_negative(argkind(rs, np.abs(np.asarray(M)), ctx), Uc, argkind(rs, np.array(s_), ctx), Vc, nntype=gen.choice(rs, ["nndsvd", "nndsvda"]))
            S.svd_checks(M, n_eigenvecs=k)
        elif which == "contrib":
            from tensorly.contrib.decomposition import tensor_train_cross
            from tensorly.contrib.decomposition.tt_TTOI import tensor_train_OI
            Xc = argkind(rs, rs.standard_normal(gen.shape(rs, 3, 3, 5)), ctx)
            tensor_train_cross(Xc, [1, 2, 2, 1], tol=1e-3, n_iter_max=3, random_state=seed)
            tensor_train_OI(Xc, [1, 2, 2, 1], n_iter=1)
        elif which == "methods":
            # the wrapper objects' own methods, on objects built from the caller's arrays
            from tensorly.tt_tensor import TTTensor
            from tensorly.tr_tensor import TRTensor
            cp = CPTensor((w_ := rs.uniform(0.5, 2, R), [argkind(rs, rs.standard_normal((s_, R)), ctx) for s_ in shp]))
            cp.to_tensor(); cp.to_vec(); cp.to_unfolded(1); cp.norm(); cp.mode_dot(rs.standard_normal((2, shp[0])), 0)
            cp.cp_copy()
            ncp = cp.normalize(inplace=False)       # documented: "if False, returns a normalized copy"
            ctx.count("own/normalize_inplace_false")
            if not (hasattr(ncp, "factors") and all(np.allclose(np.linalg.norm(np.asarray(f_), axis=0), 1) for f_ in ncp.factors)):
                ctx.violation("C15:normalize:returns-copy:inplace-false", "CPTensor.normalize(inplace=False) returned %s instead of a normalised copy" % type(ncp).__name__, {"entry": "CPTensor.normalize"})
            rk = [min(2, s_) for s_ in shp]
            tk = TuckerTensor((argkind(rs, rs.standard_normal(rk), ctx), [argkind(rs, rs.standard_normal((s_, r_)), ctx) for s_, r_ in zip(shp, rk)]))
            tk.to_tensor(); tk.to_vec(); tk.to_unfolded(0); tk.mode_dot(rs.standard_normal((2, shp[1])), 1)
            tr = [1] + [2] * (order - 1) + [1]
            tt = TTTensor([argkind(rs, rs.standard_normal((tr[k_], shp[k_], tr[k_ + 1])), ctx) for k_ in range(order)])
            tt.to_tensor(); tt.to_vec(); tt.to_unfolded(1)
            rr = [2] * (order + 1)
            trt = TRTensor([argkind(rs, rs.standard_normal((rr[k_], shp[k_], rr[k_ + 1])), ctx) for k_ in range(order)])
            trt.to_tensor(); trt.to_vec(); trt.to_unfolded(1)
            del w_
        elif which == "entropy":
            from tensorly.metrics import entropy as E
            a = rs.standard_normal((4, 4))
            rho = argkind(rs, a @ a.T / np.trace(a @ a.T), ctx)
            E.vonneumann_entropy(rho)
            E.cp_vonneumann_entropy(CPTensor((np.abs(rs.standard_normal(R)) + 0.1, [argkind(rs, rs.standard_normal((4, R)), ctx) for _ in range(2)])))
        else:
            from tensorly.tenalg.proximal import validate_constraints
            from tensorly.cp_tensor import validate_cp_rank
            from tensorly.tucker_tensor import validate_tucker_rank
            from tensorly.tt_matrix import validate_tt_matrix_rank
            validate_constraints(non_negative={0: True}, l1_reg=[None, 0.1] + [None] * (order - 2), n_const=order, order=1)
            validate_cp_rank(list(shp), "same")
            validate_tucker_rank(list(shp), [0.5] * order)
            validate_tucker_rank(list(shp), [2] * 2, fixed_modes=[0]) if order > 2 else None
            validate_tt_matrix_rank([2, 3, 2, 3], [1, 2, 1])
        return
    # own_misc: transforms / tenalg / metrics with caller-owned lists
    from tensorly import tenalg, cp_tensor as cpm, metrics
    which = gen.choice(rs, ["cp_flip_sign", "cp_permute_list", "khatri_rao_mask", "khatri_rao_mask", "khatri_rao_mask", "cp_normalize", "mttkrp", "kronecker", "multi_mode_dot", "corrindex", "congruence",
                            "svd_compress", "cp_mode_dot_copy", "cp_mode_dot_copy", "prox", "process_reg", "validate_rank", "tensordot_lists", "tensordot_lists", "nnls_start", "nnls_start",
                            "rank_lists", "mode_lists"])
    _TL.last_entry = which
    fs = [argkind(rs, rs.standard_normal((s, R)), ctx) for s in shp]
    w = rs.uniform(0.5, 2, R)
    ctx.count("own/option_lists")
    if which == "cp_flip_sign":
        cpm.cp_flip_sign(gen.choice(rs, [(w, fs), CPTensor((w, fs))]), mode=int(rs.randint(order)))
    elif which == "cp_permute_list":
        t1 = CPTensor((w.copy(), [f.copy() for f in fs]))
        ts = [CPTensor((w.copy(), [f[:, ::-1].copy() for f in fs])) for _ in range(2)]
        cpm.cp_permute_factors(t1, ts if rs.rand() < 0.7 else ts[0])
    elif which == "khatri_rao_mask":
        be = gen.choice(rs, ["core", "einsum"])
        prev = tenalg.get_backend()
        tenalg.set_backend(be)
        try:
            shape_k = gen.choice(rs, ["all", "all", "skip", "pair-skip", "single", "vector"])
            ctx.count("own/khatri_rao_operands/" + shape_k)
            mats, skip_ = fs, None
            if shape_k == "skip":
                skip_ = int(rs.randint(order))
            elif shape_k == "pair-skip":        # two matrices, one skipped: a single one is left and no product is formed
                mats, skip_ = fs[:2], int(rs.randint(2))
            elif shape_k == "single":
                mats = fs[:1]
            elif shape_k == "vector":
                import warnings as _w
                mats = [argkind(rs, rs.standard_normal(shp[0]), ctx)]
            rows = int(np.prod([np.shape(m_)[0] for i_, m_ in enumerate(mats) if i_ != skip_]))
            msk = argkind(rs, (rs.uniform(size=rows) < 0.7).astype(float), ctx) if rs.rand() < 0.7 else None
            import warnings as _w
            with _w.catch_warnings():
                _w.simplefilter("ignore")
                tenalg.khatri_rao(mats, weights=(w if shape_k != "vector" else w[:1]) if rs.rand() < 0.5 else None, skip_matrix=skip_, mask=msk)
        finally:
            tenalg.set_backend(prev)
    elif which == "cp_normalize":
        cpm.cp_normalize(gen.choice(rs, [(w, fs), CPTensor((w, fs))]))
        # a rank-one model written with plain vectors, in the caller's own list
        vecs = [argkind(rs, rs.standard_normal(s_), ctx) for s_ in shp]
        ctx.count("own/vector_factors")
        for call_ in (lambda: CPTensor((None, vecs)), lambda: cpm.cp_mode_dot((None, vecs), rs.standard_normal((2, shp[0])), 0, copy=True),
                      lambda: cpm.cp_to_tensor((None, vecs)), lambda: cpm.cp_norm((None, vecs))):
            try:
                call_()
            except (ValueError, IndexError, TypeError):
                pass
    elif which == "mttkrp":
        tenalg.unfolding_dot_khatri_rao(X, (w, fs), int(rs.randint(order)))
    elif which == "kronecker":
        tenalg.kronecker(fs, skip_matrix=0, reverse=True)
    elif which == "multi_mode_dot":
        tenalg.multi_mode_dot(X, [f.T for f in fs], skip=1)
    elif which == "corrindex":
        f2 = [argkind(rs, np.asarray(f) * 2 + 0.1 * rs.standard_normal(np.shape(f)), ctx) for f in fs]
        metrics.correlation_index(fs, f2, method=gen.choice(rs, ["stacked", "max_score", "min_score", "avg_score"]))
    elif which == "congruence":
        metrics.congruence_coefficient(fs, [f[:, ::-1] for f in fs])
    elif which == "svd_compress":
        from tensorly import preprocessing as pre
        sl = [argkind(rs, rs.standard_normal((int(rs.randint(3, 7)), 3)), ctx) for _ in range(3)]
        pre.svd_compress_tensor_slices(sl, compression_threshold=float(rs.choice([0.0, 1e-8])))
    elif which == "cp_mode_dot_copy":
        m_ = int(rs.randint(order))
        op_ = rs.standard_normal(shp[m_]) if rs.rand() < 0.6 else rs.standard_normal((2, shp[m_]))
        obj_ = gen.choice(rs, [CPTensor((w, fs)), (w, fs)])
        if isinstance(obj_, CPTensor) and rs.rand() < 0.5:
            obj_.mode_dot(op_, m_)            # the method's default is copy=True
        else:
            cpm.cp_mode_dot(obj_, op_, m_, keep_dim=bool(rs.rand() < 0.3), copy=True)
        from tensorly import tucker_tensor as tkm_
        rk_ = [min(2, s_) for s_ in shp]
        tkm_.tucker_mode_dot((argkind(rs, rs.standard_normal(rk_), ctx), [argkind(rs, rs.standard_normal((s_, r_)), ctx) for s_, r_ in zip(shp, rk_)]),
                             rs.standard_normal(shp[m_]) if (order > 2 and rs.rand() < 0.5) else rs.standard_normal((2, shp[m_])), m_, copy=True)
    elif which == "prox":
        from tensorly.tenalg import proximal as P
        v = argkind(rs, rs.standard_normal((5, 3)), ctx)
        opn = gen.choice(rs, ["simplex", "soft", "hard", "mono", "uni", "smooth", "nn", "l2", "svt", "procrustes", "normsp"])
        {"simplex": lambda: P.simplex_prox(v, 1.0), "soft": lambda: P.soft_sparsity_prox(v, 1.0), "hard": lambda: P.hard_thresholding(v, 3), "mono": lambda: P.monotonicity_prox(v),
         "uni": lambda: P.unimodality_prox(v), "smooth": lambda: P.smoothness_prox(v, 0.1), "nn": lambda: P.proximal_operator(v, non_negative=True), "l2": lambda: P.l2_prox(v, 0.1),
         "svt": lambda: P.svd_thresholding(v, 0.1), "procrustes": lambda: P.procrustes(v), "normsp": lambda: P.normalized_sparsity_prox(v, 3)}[opn]()
    elif which == "tensordot_lists":
        # contraction / batch modes as caller-owned lists, with negative indices (which the library normalises internally)
        be = gen.choice(rs, ["core", "einsum"])
        prev = tenalg.get_backend()
        tenalg.set_backend(be)
        try:
            A = argkind(rs, rs.standard_normal((3, 4, 2, 5)), ctx)
            Bt = argkind(rs, rs.standard_normal((5, 4, 3, 2)), ctx)
            form = gen.choice(rs, ["pair", "pair-neg", "flat", "flat-neg", "batched", "batched-neg"])
            ctx.count("own/tensordot_" + form)
            if form == "pair":
                tenalg.tensordot(A, Bt, [[1, 3], [1, 0]])
            elif form == "pair-neg":
                tenalg.tensordot(A, Bt, [[1, -1], [-3, 0]])
            elif form == "flat":
                tenalg.tensordot(A, A, [1, 3])
            elif form == "flat-neg":
                tenalg.tensordot(A, A, [-3, -1])
            elif form == "batched":
                tenalg.tensordot(A, Bt, [[1], [1]], batched_modes=[[0, 2], [2, 3]])
            else:
                tenalg.tensordot(A, Bt, [[-3], [1]], batched_modes=[[0, -2], [-2, -1]])
        finally:
            tenalg.set_backend(prev)
    elif which == "nnls_start":
        # a caller-supplied start point is an input, not a work buffer (only hals_nnls documents V as updated in place)
        from tensorly.solvers import nnls as NN
        n, m = int(rs.randint(3, 7)), int(rs.randint(1, 3))
        U = rs.standard_normal((n + 2, n))
        xt = np.abs(rs.standard_normal((n, m))) * (rs.uniform(size=(n, m)) < 0.5)
        UtU, UtM = U.T @ U, U.T @ (U @ xt + 0.1 * rs.standard_normal((n + 2, m)))
        solver = gen.choice(rs, ["active_set", "active_set", "fista"])
        ctx.count("own/nnls_start_" + solver)
        # wrong support on purpose: strictly positive everywhere, so the first passive-set solve has to step back
        start = np.full((n, m), 0.5) if rs.rand() < 0.6 else np.abs(rs.standard_normal((n, m)))
        if solver == "active_set":
            for j in range(m):
                st = gen.choice(rs, [start[:, j].copy(), start[:, j:j + 1].copy()])
                NN.active_set_nnls(argkind(rs, UtM[:, j].copy(), ctx), argkind(rs, UtU, ctx), x=st, n_iter_max=50)
        else:
            NN.fista(argkind(rs, UtM, ctx), argkind(rs, UtU, ctx), x=start, n_iter_max=30, non_negative=True, sparsity_coef=gen.choice(rs, [None, 0.1]))
    elif which == "rank_lists":
        # rank lists that the library has to clip / complete must stay the caller's
        from tensorly import decomposition as D
        ctx.count("own/rank_lists")
        big = [1] + [50] * (order - 1) + [1]
        D.tensor_train(X, big)
        # tensor ring: interior bonds larger than any unfolding allows (they are clamped internally), from every starting mode
        D.tensor_ring(X, [1, min(2, shp[0])] + [50] * (order - 2) + [1], mode=0)
        D.tensor_ring(X, [2, 1] + [50] * (order - 2) + [2], mode=int(rs.randint(order)))
        D.TensorRing([1, min(2, shp[0])] + [50] * (order - 2) + [1]).fit_transform(X)
        D.tucker(X, [50] * order, n_iter_max=1, init="svd")
        rk = [2] * order
        D.partial_tucker(X, rk[:2], modes=[0, order - 1], n_iter_max=1)
        D.non_negative_tucker(X, [min(2, s) for s in shp], n_iter_max=1)
        tl.random.random_tucker(tuple(shp), [2] * order)
        tl.random.random_tt(tuple(shp), [1] + [2] * (order - 1) + [1])
    elif which == "mode_lists":
        ctx.count("own/mode_lists")
        ms = [order - 1, 0]
        tenalg.multi_mode_dot(X, [rs.standard_normal((2, shp[m_])) for m_ in ms], modes=ms)
        tenalg.multi_mode_dot(X, [rs.standard_normal(shp[m_]) for m_ in ms], modes=ms)
        tenalg.multi_mode_dot(X, [rs.standard_normal((2, shp[m_])) for m_ in ms], modes=[-1, 0])
        tl.partial_unfold(X, 0, skip_begin=1)
        tl.fold(tl.unfold(np.asarray(X), 1), 1, list(shp))
        from tensorly.tucker_tensor import multi_mode_dot as _mm  # noqa
    elif which == "process_reg":
        from tensorly.solvers.penalizations import process_regularization_weights
        process_regularization_weights([None, 0.1, None][:order] + [None] * max(0, order - 3), [0.5] + [None] * (order - 1), order)
    else:
        from tensorly.tt_tensor import validate_tt_rank
        from tensorly.tr_tensor import validate_tr_rank
        rk = [1] + [3] * (order - 1) + [1]
        validate_tt_rank(tuple(shp), rk)
        validate_tr_rank(tuple(shp), rk)


def ambient(ctx, pid):
    """run the repository's own tests under the input-independent monitors (tlv/ambient_plugin.py) and merge what they saw"""
    import glob
    import json
    import os
    import subprocess
    import sys
    import tempfile
    repo = os.environ.get("VERIF_REPO", "/repo")
    out = tempfile.mkdtemp(prefix="tlvamb_", dir="/dev/shm")
    env = dict(os.environ, TLV_AMBIENT_OUT=os.path.join(out, "amb"), PYTHONDONTWRITEBYTECODE="1", PYTHONWARNINGS="ignore")
    env["PYTHONPATH"] = os.path.dirname(os.path.dirname(os.path.dirname(os.path.abspath(__file__)))) + os.pathsep + repo
    _TL.off = True
    try:
        p = subprocess.run([sys.executable, "-m", "pytest", "-q", "-p", "no:cacheprovider", "-p", "no:randomly", "-p", "tlv.ambient_plugin", "-n", "8", "--timeout=900",
                            "--deselect", "tensorly/datasets/tests/test_imports.py::test_indian_pines", "--deselect", "tensorly/tests/test_backend.py::test_svd_time"],
                           cwd=repo, env=env, capture_output=True, text=True, timeout=2800)
        tail = p.stdout.strip().splitlines()[-1] if p.stdout.strip() else p.stderr[-200:]
        ctx.note("ambient_pytest_summary", tail)
        n = 0
        for f in glob.glob(os.path.join(out, "amb.*")):
            d = json.load(open(f))
            n += d["counters"].get("calls_observed", 0)
            ctx.count("ambient/calls_observed", d["counters"].get("calls_observed", 0))
            ctx.count("ambient/rng_traced_calls", d["counters"].get("rng_traced_calls", 0))
            for sig in d.get("nontrivial", []):
                ctx.nontriv("ambient:" + sig)
            for k, v in d["violations"].items():
                if k.startswith(pid + ":"):
                    for _ in range(v["count"]):
                        ctx.violation(k, "[repository test-suite under monitors] " + v["what"], v["witness"])
        if n == 0:
            ctx.inconc("ambient test-suite run observed nothing (%s)" % tail)
    finally:
        _TL.off = False
        import shutil
        shutil.rmtree(out, ignore_errors=True)
