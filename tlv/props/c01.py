"""C01 — unfold / fold / vectorise / matricize are exact inverse index bijections.

Bounded exhaustive: every shape in the tier's shape space x every mode / skip split / ordered
matricize split x every dtype x several memory layouts. The operations are data-oblivious, so one
distinct-valued tensor per configuration decides all value assignments of that shape.

Oracle (independent of reshape/moveaxis/transpose): for each source element, the documented output
position is computed with explicit integer arithmetic on np.indices grids; scattering the source
linear indices to those positions gives E (output position -> source linear index). The result of
the real function on an injectively-encoded tensor must equal enc(E) bit for bit, with the same
dtype, and the matching fold of it (and of an independently built unfolding) must give back the
input bit for bit.
"""
import itertools
from math import prod

import numpy as np

ID = "C01"
LEVEL = "exploration"
EXHAUSTIVE = True
RULE = ("bounded exhaustive over (shape, dtype); inside each case every op configuration (mode, "
        "skip_begin/skip_end/ravel, ordered row/column split) x memory layouts x value planes is run; "
        "a configuration is non-trivial when its index map E is not the identity (a real rearrangement "
        "of >= 2 entries); distinct by construction (each (shape,dtype,op,params) visited once)")
ASSUMPTIONS = ["NumPy backend only", "np.indices / integer arithmetic / fancy-index scatter are trusted",
               "data-obliviousness: these functions never branch on values (checked by running several value planes)"]
WALL_BUDGET = {"quick": 600, "thorough": 3000}
CASE_TIMEOUT = {"quick": 120, "thorough": 600}

DTYPES = ["bool", "int8", "uint8", "int32", "int64", "float16", "float32", "float64", "complex64", "complex128"]
MEMKINDS = ["C", "F", "perm", "strided", "readonly", "negstride"]


def shapes(tier):
    if tier == "quick":
        orders, sizes, cap = range(1, 5), (1, 2, 3), 10 ** 9
    else:
        orders, sizes, cap = range(1, 6), (1, 2, 3, 4), 4096
    out = []
    for o in orders:
        for sh in itertools.product(sizes, repeat=o):
            if prod(sh) <= cap:
                out.append(list(sh))
    return out


def bounds(tier):
    sh = shapes(tier)
    return {"shapes": len(sh), "max_order": max(len(s) for s in sh), "max_elements": max(prod(s) for s in sh),
            "dtypes": DTYPES, "memory_kinds": MEMKINDS}


def high_order_shapes(tier, seed):
    """orders 6-24 with mode sizes 1-2 (one mode may have 3): beyond the exhaustive bound, sampled splits only"""
    rs = np.random.RandomState(777 + seed)
    out = []
    for o in range(6, 11):
        for _ in range(3 if tier == "quick" else 12):
            sh = [int(rs.randint(1, 3)) for _ in range(o)]
            if rs.rand() < 0.3:
                sh[int(rs.randint(o))] = 3
            out.append(sh)
    # very high orders (quantised-tensor style): mostly singleton modes so that the number of entries stays small
    for o in (12, 16, 17, 18, 20, 24):
        for _ in range(2 if tier == "quick" else 6):
            sh = [1] * o
            for i_ in rs.choice(o, size=int(rs.randint(6, 11)), replace=False):
                sh[int(i_)] = 2
            out.append(sh)
    return out


def plan(tier, seed):
    cases = []
    for sh in shapes(tier):
        for dt in DTYPES:
            cases.append({"gen": "exhaustive", "shape": sh, "dtype": dt})
    for sh in high_order_shapes(tier, seed):
        for dt in (DTYPES[-3], DTYPES[1]):
            cases.append({"gen": "high_order", "shape": sh, "dtype": dt, "seed": seed})
    # results handed out earlier stay what they were when later calls are made (no shared work buffers), also for tensors of a
    # million entries and more
    for sh in [[64, 128, 128], [128, 96, 96], [3, 4, 5]] + ([[32, 33, 32, 33]] if tier != "quick" else []):
        cases.append({"gen": "retained", "shape": sh, "dtype": "float64", "seed": seed})
    # deterministic shuffle so that shards are balanced
    rs = np.random.RandomState(12345)
    rs.shuffle(cases)
    return cases


def floors(tier):
    return {"calls/unfold": 1000, "calls/fold": 1000, "calls/partial_unfold": 1000, "calls/partial_fold": 1000,
            "calls/matricize": 1000, "calls/tensor_to_vec": 100, "calls/vec_to_tensor": 100,
            "calls/partial_tensor_to_vec": 100, "calls/partial_vec_to_tensor": 100,
            "calls/matricize_invalid_rejected": 50}


# ---------------------------------------------------------------------------------------------
# encodings: digit (0..cap-1) -> value of dtype, injective
def _enc(dt):
    if dt == "bool":
        return 2, lambda d: d.astype(bool)
    if dt == "int8":
        return 200, lambda d: (d - 100).astype(np.int8)
    if dt == "uint8":
        return 256, lambda d: d.astype(np.uint8)
    if dt in ("int32", "int64"):
        return 2 ** 30, lambda d: (d * 3 - 1000).astype(dt)
    if dt == "float16":
        return 512, lambda d: (d - 100.5).astype(np.float16)
    if dt in ("float32", "float64"):
        return 2 ** 20, lambda d: (d * 1.25 - 7.5).astype(dt)
    if dt in ("complex64", "complex128"):
        return 2 ** 20, lambda d: ((d * 1.25 - 7.5) + 1j * (3.0 - 0.5 * d)).astype(dt)
    raise ValueError(dt)


def value_planes(n, dt):
    """list of 1-D arrays of length n (logical row-major content); jointly injective in the index"""
    cap, enc = _enc(dt)
    idx = np.arange(n, dtype=np.int64)
    planes = []
    m = 1
    while True:
        planes.append(enc((idx // m) % cap))
        m *= cap
        if m >= max(n, 1):
            break
    if dt.startswith("float") or dt.startswith("complex"):
        fi = np.finfo(dt)
        special = np.array([np.nan, -0.0, np.inf, -np.inf, fi.tiny / 4 if dt != "float16" else 6e-8, fi.max, -1.5, 0.0])
        sp = special[idx % len(special)].astype(dt)
        if dt.startswith("complex"):
            sp = (sp + 1j * special[(idx + 3) % len(special)]).astype(dt)
        planes.append(sp)
    return planes


def layouts(A, kinds):
    """yield (kind, array logically equal to A with a different memory layout)"""
    for k in kinds:
        if k == "C":
            yield k, np.ascontiguousarray(A).copy()
        elif k == "F":
            yield k, np.asfortranarray(A).copy(order="F")
        elif k == "perm":
            if A.ndim < 2:
                continue
            perm = list(range(1, A.ndim)) + [0]
            inv = np.argsort(perm)
            B = np.ascontiguousarray(A.transpose(perm))
            yield k, B.transpose(inv)
        elif k == "strided":
            big = np.empty(tuple(2 * s + 1 for s in A.shape), dtype=A.dtype)
            big.view(np.uint8)[...] = 0xAB
            v = big[tuple(slice(1, None, 2) for _ in A.shape)]
            v[...] = A
            yield k, v
        elif k == "readonly":
            B = A.copy()
            B.setflags(write=False)
            yield k, B
        elif k == "negstride":
            if A.ndim < 1 or A.shape[0] < 2:
                continue
            B = np.ascontiguousarray(A[::-1])
            yield k, B[::-1]


def _rank(idx_list, sizes):
    r = 0
    for ix, s in zip(idx_list, sizes):
        r = r * s + ix
    return r


def _scatter(outpos, n):
    E = np.full(n, -1, dtype=np.int64)
    E[np.asarray(outpos).ravel()] = np.arange(n, dtype=np.int64)
    assert (E >= 0).all(), "oracle index map is not a bijection"
    return E


def E_unfold(shape, mode):
    n = prod(shape)
    I = np.indices(shape).reshape(len(shape), -1) if n else None
    others = [k for k in range(len(shape)) if k != mode]
    ncols = prod(shape[k] for k in others)
    pos = I[mode] * ncols + _rank([I[k] for k in others], [shape[k] for k in others])
    return _scatter(pos, n).reshape(shape[mode], ncols)


def E_partial_unfold(shape, mode, sb, se, ravel):
    nd = len(shape)
    n = prod(shape)
    I = np.indices(shape).reshape(nd, -1)
    begin = list(range(sb))
    end = list(range(nd - se, nd))
    mid = list(range(sb, nd - se))
    m = sb + mode
    mid_others = [k for k in mid if k != m]
    # output axes in order: begin..., mode, (mid others merged), end...
    out_idx = [I[k] for k in begin] + [I[m]] + [_rank([I[k] for k in mid_others], [shape[k] for k in mid_others])] + [I[k] for k in end]
    out_sizes = [shape[k] for k in begin] + [shape[m]] + [prod(shape[k] for k in mid_others)] + [shape[k] for k in end]
    pos = _rank(out_idx, out_sizes)
    if ravel:
        out_shape = [shape[k] for k in begin] + [shape[m] * prod(shape[k] for k in mid_others)] + [shape[k] for k in end]
    else:
        out_shape = out_sizes
    return _scatter(pos, n).reshape(out_shape)


_SPELL = [0, 0]


def E_matricize(shape, rows, cols):
    n = prod(shape)
    I = np.indices(shape).reshape(len(shape), -1)
    nr = prod(shape[k] for k in rows)
    nc = prod(shape[k] for k in cols)
    pos = _rank([I[k] for k in rows], [shape[k] for k in rows]) * nc + _rank([I[k] for k in cols], [shape[k] for k in cols])
    if isinstance(pos, int):
        pos = np.zeros(n, dtype=np.int64) + pos
    return _scatter(pos, n).reshape(nr, nc)


def _same(a, b):
    """bitwise equality incl. dtype and shape"""
    if not isinstance(a, np.ndarray) or a.dtype != b.dtype or a.shape != b.shape:
        return False
    return np.ascontiguousarray(a).tobytes() == np.ascontiguousarray(b).tobytes()


def run_retained(case, ctx):
    import tensorly as tl
    from tensorly import base as B
    shape = list(case["shape"])
    nd = len(shape)
    n = prod(shape)
    rs = np.random.RandomState(case["seed"] + n)
    Xs = [rs.standard_normal(shape) for _ in range(3)]
    ops = [("unfold", lambda T, m: tl.unfold(T, m), lambda m: E_unfold(shape, m))]
    ops.append(("partial_unfold", lambda T, m: B.partial_unfold(T, m, skip_begin=0, skip_end=0), lambda m: E_unfold(shape, m)))
    for name, fn, Efn in ops:
        for mode in range(nd):
            E = Efn(mode)
            kept = []
            for X in Xs:
                out = fn(X, mode)
                kept.append((out, X.ravel()[E]))
            ctx.count("calls/%s_retained" % name, len(kept))
            for j, (out, want) in enumerate(kept):
                if not _same(out, want):
                    ctx.violation("C01:%s:earlier-result-overwritten" % name, "%s(mode=%d) of tensor #%d (shape %s, %d entries) no longer holds that tensor's entries after %d later call(s) on other "
                                  "tensors of the same shape" % (name, mode, j, shape, n, len(kept) - 1 - j), {"shape": shape, "mode": mode})
                    return
    rows = list(range(1, nd))
    kept = [(B.matricize(X, rows), X.transpose(rows + [0]).reshape(-1, shape[0])) for X in Xs]
    for j, (out, want) in enumerate(kept):
        if not _same(out, want):
            ctx.violation("C01:matricize:earlier-result-overwritten", "matricize result #%d (shape %s) changed after later calls" % (j, shape), {"shape": shape})
            return
    ctx.nontriv_count(1)


def run_case(case, ctx):
    if case.get("gen") == "retained":
        return run_retained(case, ctx)
    import tensorly as tl
    from tensorly import base as B

    shape = list(case["shape"])
    dt = case["dtype"]
    nd = len(shape)
    n = prod(shape)
    planes = value_planes(n, dt)
    first_dtype = (dt == DTYPES[0])
    kinds = MEMKINDS
    high = case.get("gen") == "high_order"
    if high:
        planes, kinds = planes[:2], ("C", "perm")
        hrs = np.random.RandomState(case.get("seed", 0) * 1000 + nd * 17 + n)
        ctx.count("high_order_cases")

    def check(opname, params, fwd, E, inv=None):
        """fwd(T)->out must equal vals[E]; inv(out_like)->T must restore T from an independently built unfolding"""
        nontrivial = n >= 2 and not np.array_equal(E.ravel(), np.arange(n))
        if first_dtype and nontrivial:
            ctx.nontriv_count(1)
        for vals in planes:
            A = vals.reshape(shape)
            expected = vals[E]
            for kind, T in layouts(A, kinds):
                snap = np.ascontiguousarray(T).tobytes()
                out = fwd(T)
                ctx.count("calls/" + opname)
                ctx.count("layouts/" + kind)
                if not _same(out, expected):
                    ctx.violation("C01:%s:layout" % opname,
                                  "%s%s on shape %s dtype %s layout %s is not the documented rearrangement" % (opname, params, shape, dt, kind),
                                  {"shape": shape, "dtype": dt, "params": params, "layout": kind, "got": out, "expected": expected})
                    return
                if np.ascontiguousarray(T).tobytes() != snap:
                    ctx.violation("C01:%s:input-mutated" % opname, "%s%s modified its input" % (opname, params),
                                  {"shape": shape, "dtype": dt, "params": params, "layout": kind})
                    return
                if inv is not None:
                    back = inv[1](out)
                    ctx.count("calls/" + inv[0])
                    if not _same(back, A):
                        ctx.violation("C01:%s:roundtrip" % inv[0],
                                      "%s(%s(T)) != T bitwise for %s shape %s dtype %s layout %s" % (inv[0], opname, params, shape, dt, kind),
                                      {"shape": shape, "dtype": dt, "params": params, "layout": kind, "got": back})
                        return
                if vals is planes[0] and len(planes) > 1 and T.flags.writeable and n >= 2 and not np.shares_memory(T, vals):
                    # history: the same array object, edited in place by its owner, unfolded again: the rearrangement is a function
                    # of the current contents, never of an earlier call
                    vals2 = planes[1]
                    T[...] = vals2.reshape(shape)
                    out2 = fwd(T)
                    ctx.count("calls/%s_after_inplace_edit" % opname)
                    if not _same(out2, vals2[E]):
                        ctx.violation("C01:%s:stale-after-inplace-edit" % opname,
                                      "%s%s called again on the same array object after an in-place edit does not reflect the new contents (shape %s dtype %s layout %s)" % (
                                          opname, params, shape, dt, kind), {"shape": shape, "dtype": dt, "params": params, "layout": kind})
                        return
                    if inv is not None and not _same(inv[1](out2), vals2.reshape(shape)):
                        ctx.violation("C01:%s:stale-after-inplace-edit" % inv[0], "%s of the second unfolding does not give the edited tensor (shape %s dtype %s)" % (inv[0], shape, dt),
                                      {"shape": shape, "dtype": dt, "params": params, "layout": kind})
                        return
                    T[...] = A
            if inv is not None:
                # fold applied to an independently constructed unfolding, in several layouts
                # (the strided layout embeds the array in one with 2s+1 entries per mode: not for orders beyond the exhaustive bound)
                for kind, U in layouts(expected, ("C", "F", "strided", "readonly") if not high else ("C", "F", "readonly")):
                    back = inv[1](U)
                    ctx.count("calls/" + inv[0])
                    if not _same(back, A):
                        ctx.violation("C01:%s:layout" % inv[0],
                                      "%s%s of the reference unfolding (layout %s) does not give the tensor; shape %s dtype %s" % (inv[0], params, kind, shape, dt),
                                      {"shape": shape, "dtype": dt, "params": params, "layout": kind, "got": back, "expected": A})
                        return

    # vectorise
    check("tensor_to_vec", {}, lambda T: B.tensor_to_vec(T), np.arange(n, dtype=np.int64),
          ("vec_to_tensor", lambda v: B.vec_to_tensor(v, tuple(shape))))
    # unfold / fold
    # flags and single modes as a caller's arithmetic produces them: NumPy integers (np.arange, argmax), NumPy booleans (a reduction),
    # 0/1 -- rotated so that every spelling meets every function
    def as_mode(m_):
        _SPELL[0] += 1
        return [int, np.int64, np.intp, int, np.int32][_SPELL[0] % 5](m_)

    def as_flag(b_):
        _SPELL[1] += 1
        return ([True, 1, np.True_, True, np.bool_(True)] if b_ else [False, 0, np.False_, False, np.bool_(False)])[_SPELL[1] % 5]
    for mode in range(nd):
        E = E_unfold(shape, mode)
        check("unfold", {"mode": mode}, lambda T, mode=mode: tl.unfold(T, as_mode(mode)), E,
              ("fold", lambda U, mode=mode: tl.fold(U, as_mode(mode), tuple(shape))))
    # partial unfold / fold / vec
    skip_pairs = [(sb, se) for sb in range(nd) for se in range(nd - sb)]
    if high and nd > 8:
        # O(order^3) splits: a sample is enough beyond the exhaustive bound
        skip_pairs = [skip_pairs[int(i_)] for i_ in hrs.choice(len(skip_pairs), size=12, replace=False)]
    for sb, se in skip_pairs:
        if True:
            nmid = nd - sb - se
            if nmid < 1:
                continue
            mid_modes = list(range(nmid)) if not (high and nd > 8) else sorted(set(int(i_) for i_ in hrs.randint(0, nmid, size=3)))
            for mode in mid_modes:
                for ravel in (False, True):
                    E = E_partial_unfold(shape, mode, sb, se, ravel)
                    params = {"mode": mode, "skip_begin": sb, "skip_end": se, "ravel_tensors": ravel}
                    check("partial_unfold", params,
                          lambda T, mode=mode, sb=sb, se=se, ravel=ravel: B.partial_unfold(T, mode=as_mode(mode), skip_begin=sb, skip_end=se, ravel_tensors=as_flag(ravel)),
                          E,
                          ("partial_fold", lambda U, mode=mode, sb=sb, se=se: B.partial_fold(U, mode, tuple(shape), skip_begin=sb, skip_end=se)))
            E = E_partial_unfold(shape, 0, sb, se, True)
            params = {"skip_begin": sb, "skip_end": se}
            check("partial_tensor_to_vec", params,
                  lambda T, sb=sb, se=se: B.partial_tensor_to_vec(T, skip_begin=sb, skip_end=se), E,
                  ("partial_vec_to_tensor", lambda U, sb=sb, se=se: B.partial_vec_to_tensor(U, tuple(shape), skip_begin=sb, skip_end=se)))
    # matricize: every ordered split
    modes = list(range(nd))
    if high:
        # sampled ordered splits, with emphasis on few column modes left in natural order (the column_modes=None default)
        splits = []
        for _ in range(60):
            perm = hrs.permutation(nd).tolist()
            k = int(hrs.randint(0, nd + 1))
            if hrs.rand() < 0.5:
                k = int(hrs.randint(max(nd - 4, 0), nd + 1))
                perm = perm[:k] + sorted(perm[k:])
            splits.append((tuple(perm), k))
    else:
        splits = [(perm, k) for perm in itertools.permutations(modes) for k in range(0, nd + 1)]
    for perm, k in splits:
        if True:
            rows, cols = list(perm[:k]), list(perm[k:])
            E = E_matricize(shape, rows, cols)
            check("matricize", {"row_modes": rows, "column_modes": cols},
                  lambda T, rows=rows, cols=cols: B.matricize(T, tuple(rows), tuple(cols)), E)
            if cols == sorted(cols):
                check("matricize", {"row_modes": rows, "column_modes": None},
                      lambda T, rows=rows: B.matricize(T, list(rows)), E)
                if len(rows) == 1:
                    check("matricize", {"row_modes": rows[0], "column_modes": None},
                          lambda T, rows=rows: B.matricize(T, as_mode(rows[0])), E)
            if len(cols) == 1:
                check("matricize", {"row_modes": rows, "column_modes": cols[0]},
                      lambda T, rows=rows, cols=cols: B.matricize(T, rows, as_mode(cols[0])), E)
    # the caller's `shape` argument may be a list that is reused afterwards: it must come back untouched, and a second call with
    # the same list object must still be right
    if dt == DTYPES[-3] and nd >= 2:
        A = planes[0].reshape(shape)
        for mode in range(nd):
            shp_list = list(shape)
            U = A.transpose([mode] + [k for k in range(nd) if k != mode]).reshape(shape[mode], -1)
            for rep in range(2):
                back = tl.fold(U, mode, shp_list)
                ctx.count("calls/fold_list_shape")
                if shp_list != list(shape):
                    ctx.violation("C01:fold:shape-argument-edited", "fold(mode=%d) edited the caller's shape list %s -> %s" % (mode, shape, shp_list), {"shape": shape, "mode": mode})
                    return
                if not _same(back, A):
                    ctx.violation("C01:fold:roundtrip", "fold with a list shape (call %d) != tensor; shape %s mode %d" % (rep + 1, shape, mode), {"shape": shape, "mode": mode})
                    return
            for sb in range(nd):
                for se in range(nd - sb):
                    if nd - sb - se < 1 or mode >= nd - sb - se:
                        continue
                    shp_list = list(shape)
                    PU = B.partial_unfold(A, mode=mode, skip_begin=sb, skip_end=se)
                    for rep in range(2):
                        back = B.partial_fold(PU, mode, shp_list, skip_begin=sb, skip_end=se)
                        if shp_list != list(shape) or not _same(back, A):
                            ctx.violation("C01:partial_fold:shape-argument-edited" if shp_list != list(shape) else "C01:partial_fold:roundtrip",
                                          "partial_fold with a reused list shape failed (call %d): shape %s mode %d skip %d/%d, list now %s" % (rep + 1, shape, mode, sb, se, shp_list), {"shape": shape})
                            return
    # invalid splits must raise ValueError
    if nd >= 2:
        A = planes[0].reshape(shape)
        bad = [((0,), tuple(range(2, nd)) if nd > 2 else ()), ((0, 1), (1,) + tuple(range(2, nd))), ((0,), tuple(range(nd)))]
        for rows, cols in bad:
            if sorted(list(rows) + list(cols)) == modes:
                continue
            try:
                B.matricize(A, rows, cols)
            except ValueError:
                ctx.count("calls/matricize_invalid_rejected")
            else:
                ctx.violation("C01:matricize:invalid-split-accepted", "matricize accepted row_modes=%s column_modes=%s on order %d" % (rows, cols, nd),
                              {"shape": shape, "rows": rows, "cols": cols})
    ctx.sample({"shape": shape, "dtype": dt, "ops": "all modes / skip splits / ordered matricize splits", "layouts": kinds,
                "value_planes": len(planes)}, limit=2)
