"""C10 — non-negative decompositions return entrywise non-negative factors (exactly on the declared modes).

Workload: the six non-negative algorithms on signed / non-negative / sparse / integer / all-negative tensors of order
2-4 with SVD, random and non-negative user initialisations, normalisation, sparsity coefficients, partial non-negativity
and iteration caps 0..K. Monitors: `>= 0 and not NaN` (no slack) on every declared factor / weights / core of the
returned object, plus live postcondition monitors on the inner NNLS solvers (hals_nnls, fista, active_set_nnls) and on
make_svd_non_negative while those runs execute.
"""
import numpy as np

from ..core import gen, ref, decomp, probe

ID = "C10"
RULE = ("seeded (algorithm, data class, order, rank, init kind, options, iteration cap) configurations; non-trivial = the data has "
        "negative entries or a user/random init is used or a non-default option is set; distinct = distinct configuration descriptors")
ASSUMPTIONS = ["PARAFAC2: only modes 0 and 2 are declared non-negative (mode 1 cannot be constrained, as documented)",
               "HALS CP: exactly the modes in nn_modes", "user initialisations are entrywise non-negative (the statement's domain)"]
GENS = ["nn_parafac", "nn_parafac_hals", "nn_tucker", "nn_tucker_hals", "constrained_parafac", "parafac2"]
CASE_TIMEOUT = {"quick": 120, "thorough": 120}
_LIVE = {}


def plan(tier, seed):
    n = 3600 if tier == "quick" else 48000
    return [{"gen": GENS[i % len(GENS)], "idx": i, "seed": seed} for i in range(n)]


def floors(tier):
    f = {"checked/%s" % g: 100 for g in GENS}
    f.update({"arrays_checked": 3000, "live/hals_nnls": 2000, "live/fista": 100, "live/active_set_nnls": 50, "live/make_svd_non_negative": 300,
              "data/signed": 300, "iter_cap_0": 50})
    return f


def bounds(tier):
    return {"orders": "2-4", "mode_sizes": "2-6", "ranks": "1-3", "iteration_caps": "0..12"}


def setup_worker(ctx, tier, seed):
    """live postcondition monitors on the inner solvers"""
    import tensorly  # noqa
    from tensorly.solvers import nnls
    from tensorly.tenalg import svd as svdmod

    def nonneg_post(name):
        def make(fn):
            def wrapper(*a, **k):
                out = fn(*a, **k)
                if name == "fista" and k.get("non_negative", True) is False:
                    return out
                arrs = out if isinstance(out, tuple) else (out,)
                if name == "hals_nnls" and len(a) >= 2:
                    # rows whose diagonal entry of UtU is zero are left untouched by the solver (documented `if UtU[k, k]`):
                    # their content is the caller's start value, not a solver output
                    d = np.diag(np.asarray(a[1]))
                    arrs = (np.asarray(out)[d != 0],)
                ctx.count("live/%s" % name)
                for arr in arrs:
                    arr = np.asarray(arr)
                    if arr.dtype.kind == "f" and (np.any(arr < 0) or np.any(np.isnan(arr))):
                        _LIVE.setdefault("bad", []).append((name, float(np.nanmin(arr)) if arr.size else None, bool(np.any(np.isnan(arr)))))
                return out
            return wrapper
        return make
    for name, fn in (("hals_nnls", nnls.hals_nnls), ("fista", nnls.fista), ("active_set_nnls", nnls.active_set_nnls),
                     ("make_svd_non_negative", svdmod.make_svd_non_negative)):
        n, _ = probe.install(fn, nonneg_post(name))
        ctx.count("bindings_replaced/%s" % name, n)


def _neg(a):
    a = np.asarray(a)
    return bool(a.size and (np.any(a < 0) or np.any(np.isnan(a))))


def run_case(case, ctx):
    try:
        _run_case(case, ctx)
    except np.linalg.LinAlgError:
        ctx.skip("%s: singular block problem (LinAlgError)" % case["gen"])


def _run_case(case, ctx):
    import tensorly as tl
    algo = case["gen"]
    rs = gen.rng(case["seed"], case["idx"], algo)
    dt = "float32" if rs.rand() < 0.15 else "float64"
    cls = gen.choice(rs, ["generic", "generic", "nonneg", "sparse-nonneg", "integer", "allneg", "nonneg-lowrank"])
    if algo == "parafac2":
        cls = gen.choice(rs, ["generic", "nonneg", "integer", "nonneg-lowrank"])
    data = decomp.make_data(rs, algo, dt, cls=cls, order=int(rs.randint(2, 5)))
    rank = decomp.pick_rank(rs, algo, data)
    order = len(data["shape"]) if data["kind"] == "tensor" else 3
    n_iter = int(gen.choice(rs, [0, 1, 1, 2, 3, 7, 12]))
    seed = int(rs.randint(0, 2 ** 31 - 1))
    init_kind = gen.choice(rs, ["svd", "random", "user"])
    opts = {}
    declared = None  # which factor modes are declared non-negative (None = all)
    check_core = False
    signed = cls in ("generic", "integer", "allneg")
    ctx.count("data/%s" % ("signed" if signed else "nonneg"))
    if n_iter == 0:
        ctx.count("iter_cap_0")

    def user_cp(shape, R):
        return (rs.uniform(0.5, 2, R).astype(dt) if rs.rand() < 0.5 else None, [rs.uniform(0, 1, (s, R)).astype(dt) * (rs.uniform(size=(s, R)) < 0.8) for s in shape])

    which = "plain"
    init = None
    if algo in ("nn_parafac", "nn_parafac_hals", "constrained_parafac"):
        shp = data["shape"]
        if init_kind == "user":
            init = user_cp(shp, rank)
        else:
            opts["init"] = init_kind
        if algo == "nn_parafac":
            if rs.rand() < 0.4:
                opts["normalize_factors"] = True
                which = "normalize"
        elif algo == "nn_parafac_hals":
            which = gen.choice(rs, ["plain", "normalize", "nn_modes", "nn_modes+fixed", "sparsity", "exact"])
            if which == "normalize":
                opts["normalize_factors"] = True
            elif which == "nn_modes":
                k = int(rs.randint(0, order + 1))
                sel = sorted(rs.choice(order, size=k, replace=False).tolist())
                opts["nn_modes"] = set(sel) if sel else None
                declared = sel
            elif which == "nn_modes+fixed":
                # some modes fixed (never the last, which the algorithm refuses to fix) while non-negativity is declared on a strict subset:
                # the solver choice must follow the mode, not the position in the list of updated modes
                k = int(rs.randint(1, order))
                sel = sorted(rs.choice(order, size=k, replace=False).tolist())
                kf = int(rs.randint(1, order))
                fx = sorted(rs.choice(order - 1, size=min(kf, order - 1), replace=False).tolist())
                opts["nn_modes"] = set(sel) if rs.rand() < 0.5 else list(sel)
                opts["fixed_modes"] = fx if rs.rand() < 0.7 else tuple(fx)
                declared = sel
                if init_kind != "user":
                    init_kind = "user"
                    opts.pop("init", None)
                    init = user_cp(shp, rank)
                n_iter = max(n_iter, 1)
            elif which == "sparsity":
                opts["sparsity_coefficients"] = [float(gen.choice(rs, [0.01, 0.5, 5.0])) for _ in range(order)]
            elif which == "exact" and max(shp) <= 3 and rank <= 2 and n_iter <= 1:
                opts["exact"] = True
            else:
                which = "plain"
        else:
            form = gen.choice(rs, ["scalar", "dict", "list", "mixed", "mixed"])
            which = "non_negative-" + form
            if form == "scalar":
                opts["non_negative"] = True
            elif form == "dict":
                k = int(rs.randint(1, order + 1))
                sel = sorted(rs.choice(order, size=k, replace=False).tolist())
                # modes counted from the end are accepted as keys (they index the per-mode table like any Python index)
                neg_keys = bool(rs.rand() < 0.3)
                opts["non_negative"] = {(m - order if (neg_keys and rs.rand() < 0.7) else m): True for m in sel}
                if neg_keys:
                    which += "-negative-keys"
                declared = sel
            elif form == "list":
                opts["non_negative"] = [True] * order
            else:
                # non-negativity on a strict subset of the modes plus a second constraint on (some of) the others, in every spelling
                # (dict / list with empty entries) of both: the second constraint must not undo the first
                k = int(rs.randint(1, order))
                sel = sorted(rs.choice(order, size=k, replace=False).tolist())
                others = [m for m in range(order) if m not in sel]
                osel = [m for m in others if rs.rand() < 0.7] or others[:1]
                declared = sel
                if rs.rand() < 0.5:
                    opts["non_negative"] = {m: True for m in sel}
                else:
                    opts["non_negative"] = [True if m in sel else gen.choice(rs, [None, False]) for m in range(order)]
                second, par = gen.choice(rs, [("l1_reg", 0.05), ("l2_reg", 0.1), ("l2_square_reg", 0.1), ("smoothness", 0.5), ("hard_sparsity", 2), ("normalize", True), ("monotonicity", True), ("unimodality", True), ("soft_sparsity", 1.5)])
                if rs.rand() < 0.3:
                    opts[second] = {m: par for m in osel}
                    which += "+dict"
                else:
                    opts[second] = [par if m in osel else gen.choice(rs, [None, False, 0]) for m in range(order)]
                    which += "+list"
            opts["n_iter_max_inner"] = int(gen.choice(rs, [1, 3, 10]))
            if rs.rand() < 0.3:
                # some modes kept fixed: a fixed mode declared non-negative is returned as initialised, which therefore has to be feasible
                kf = int(rs.randint(1, order))
                opts["fixed_modes"] = sorted(rs.choice(order - 1, size=min(kf, order - 1), replace=False).tolist())
                which += "+fixed"
    elif algo in ("nn_tucker", "nn_tucker_hals"):
        shp = data["shape"]
        check_core = True
        if init_kind == "user":
            init = (rs.uniform(0, 1, rank).astype(dt), [rs.uniform(0, 1, (s, r)).astype(dt) for s, r in zip(shp, rank)])
        else:
            opts["init"] = init_kind
        if algo == "nn_tucker":
            if rs.rand() < 0.4:
                opts["normalize_factors"] = True
                which = "normalize"
        else:
            which = gen.choice(rs, ["fista", "fista", "active_set", "active_set", "active_set-fullrank", "core-sparsity", "sparsity", "normalize"])
            opts["algorithm"] = "active_set" if which.startswith("active_set") else "fista"
            if which.startswith("active_set"):
                # the outer budget is also the inner budget of the active-set core solver: tiny budgets leave it mid-way
                n_iter = int(gen.choice(rs, [1, 1, 1, 2, 3]))
                if which == "active_set-fullrank" and init_kind != "user":
                    rank = [min(s_, 4) for s_ in shp]
            if which == "core-sparsity":
                opts["core_sparsity_coefficient"] = float(gen.choice(rs, [0.01, 0.5]))
            if which == "sparsity":
                opts["sparsity_coefficients"] = [float(gen.choice(rs, [0.01, 0.5])) for _ in range(order)]
            if which == "normalize":
                opts["normalize_factors"] = True
            n_iter = min(n_iter, 7)
    else:  # parafac2
        sel = gen.choice(rs, [[0, 2], [0], [2], "all"])
        opts["nn_modes"] = sel
        declared = [0, 2] if sel == "all" else [m for m in sel if m != 1]
        opts["linesearch"] = bool(rs.rand() < 0.5)
        which = "nn_modes" + ("+linesearch" if opts["linesearch"] else "")
        if rs.rand() < 0.3:
            opts["normalize_factors"] = True
        if init_kind == "user":
            I, K = len(data["slices"]), data["slices"][0].shape[1]
            init = (None, [rs.uniform(0.1, 1, (I, rank)).astype(dt), (rs.standard_normal((rank, rank)) + 2 * np.eye(rank)).astype(dt), rs.uniform(0, 1, (K, rank)).astype(dt)],
                    [gen.orth(rs, s.shape[0], rank, dt) for s in data["slices"]])
        else:
            opts["init"] = init_kind
            if init_kind == "svd" and data["slices"][0].shape[1] < rank:
                opts["init"] = "random"
    desc = {"algo": algo, "data": cls, "shape": data["shape"], "rank": rank, "init": init_kind, "options": which, "n_iter_max": n_iter, "dtype": dt,
            "opts": {k: (sorted(v) if isinstance(v, set) else v) for k, v in opts.items()}}
    ctx.count("checked/%s" % algo)
    if signed or init_kind != "svd" or which != "plain":
        ctx.nontriv(desc)
    ctx.sample({"case": desc}, 6)
    _LIVE.pop("bad", None)
    import warnings
    with warnings.catch_warnings():
        warnings.simplefilter("ignore")
        r = decomp.run(algo, data, rank, n_iter, dict(opts), seed, tol=float(gen.choice(rs, [1e-100, 1e-4])), init=init)
    dec = decomp.snapshot(r["decomp"])
    icls = "%s+%s" % (which, "iter0" if n_iter == 0 else "iterN")

    def bad(part, arr):
        a = np.asarray(arr)
        ctx.violation("C10:%s:negative-%s:%s" % (algo, part, icls), "%s returned a %s with %s (min %r) on a mode declared non-negative (data %s, init %s, n_iter_max=%d)" % (
            algo, part, "NaN" if np.any(np.isnan(a)) else "a negative entry", float(np.nanmin(a)) if a.size else None, cls, init_kind, n_iter), {"desc": desc, "array": a})

    if algo in ("nn_parafac", "nn_parafac_hals", "constrained_parafac"):
        w, fs = dec
        for m, f in enumerate(fs):
            if declared is None or m in declared:
                ctx.count("arrays_checked")
                if _neg(f):
                    bad("factor", f)
                    return
        if declared is None and w is not None:
            ctx.count("arrays_checked")
            if _neg(w):
                bad("weights", w)
                return
    elif algo in ("nn_tucker", "nn_tucker_hals"):
        core, fs = dec
        for f in fs:
            ctx.count("arrays_checked")
            if _neg(f):
                bad("factor", f)
                return
        ctx.count("arrays_checked")
        if _neg(core):
            bad("core", core)
            return
    else:
        w, (A, B, C), P = dec
        for m, f in ((0, A), (2, C)):
            if m in declared:
                ctx.count("arrays_checked")
                if _neg(f):
                    bad("factor", f)
                    return
        if 0 in declared and w is not None:
            ctx.count("arrays_checked")
            if _neg(w):
                bad("weights", w)
                return
    if algo in ("nn_parafac", "nn_parafac_hals", "constrained_parafac", "nn_tucker", "nn_tucker_hals") and rs.rand() < 0.2:
        # history on one estimator object: fitted on a tensor of one order with the all-modes default, then on a tensor of another
        # order (and other sizes); every mode of the second tensor is declared non-negative as well
        from tensorly import decomposition as D
        from tensorly.decomposition import _tucker
        Cls = getattr(D, decomp.CLASS_OF[algo], None) or getattr(_tucker, decomp.CLASS_OF[algo])
        o1, o2 = (2, 3) if rs.rand() < 0.35 else ((3, 4) if rs.rand() < 0.6 else (4, 3))
        kw = {"n_iter_max": int(gen.choice(rs, [1, 3, 8])), "init": gen.choice(rs, ["svd", "random"]), "random_state": seed}
        if algo == "constrained_parafac":
            kw["non_negative"] = True
        rk = int(rs.randint(1, 4))
        try:
            est = Cls(rk, **kw) if not algo.startswith("nn_tucker") else Cls(rank=rk, **kw)
        except TypeError:
            est = None
        if est is not None:
            ctx.count("estimator_refit_other_order/%s" % algo)
            T1 = np.abs(rs.standard_normal([int(rs.randint(2, 5)) for _ in range(o1)])).astype(dt)
            T2 = rs.standard_normal([int(rs.randint(2, 5)) for _ in range(o2)]).astype(dt)     # signed: an unconstrained update shows
            with warnings.catch_warnings():
                warnings.simplefilter("ignore")
                est.fit_transform(T1)
                out2 = est.fit_transform(T2)
            d2 = decomp.snapshot(out2[0] if (type(out2) is tuple and len(out2) == 2 and isinstance(out2[1], list)) else out2)
            parts = list(d2[1]) + ([d2[0]] if algo.startswith("nn_tucker") else [])
            for f in parts:
                ctx.count("arrays_checked")
                if _neg(f):
                    ctx.violation("C10:%s:negative-factor:estimator-refit-order-%d-then-%d" % (algo, o1, o2), "estimator fitted on an order-%d tensor and then on an order-%d tensor returned a "
                                  "negative/NaN entry (min %r) although every mode is declared non-negative" % (o1, o2, float(np.nanmin(np.asarray(f)))), {"desc": desc, "orders": [o1, o2]})
                    return
    if which.startswith("nn_modes+fixed") and algo == "nn_parafac_hals":
        # history: the caller keeps its nn_modes container and calls again without fixed modes: the declaration still stands
        o2 = {k: v for k, v in opts.items() if k != "fixed_modes"}
        ctx.count("second_call_same_nn_modes_container")
        with warnings.catch_warnings():
            warnings.simplefilter("ignore")
            r2 = decomp.run(algo, data, rank, max(n_iter, 1), o2, seed, tol=1e-100, init=init)
        w2, fs2 = decomp.snapshot(r2["decomp"])
        for m in declared:
            ctx.count("arrays_checked")
            if _neg(fs2[m]):
                ctx.violation("C10:%s:negative-factor:%s" % (algo, "nn_modes-container-reused+iterN"), "second call with the caller's nn_modes container (now without fixed modes) returned a "
                              "negative entry (min %r) in declared mode %d; the container now reads %r" % (float(np.nanmin(fs2[m])), m, o2.get("nn_modes")), {"desc": desc})
                return
    for name, mn, isnan in _LIVE.pop("bad", []):
        ctx.violation("C10:%s:inner-solver-%s:%s" % (algo, name, icls), "inner solver %s returned %s (min %r) during %s" % (name, "NaN" if isnan else "a negative entry", mn, algo), desc)
        return
