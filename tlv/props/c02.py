"""C02 — multilinear products equal their textbook index formulas under both tenalg backends.

Every case builds operands for one function from a seeded generator (degenerate classes enumerated:
size-1 modes, single-operand lists, order-1/2 tensors, vectors mixed with matrices, every skip index,
weights/mask on/off, complex values), calls the *dispatched* tensorly.tenalg function under the 'core'
and then the 'einsum' backend, and compares each result with an explicit numpy.einsum formula
(bound: c*eps*|contraction on absolute values|) and the two backends with each other.
"""
import itertools
from math import prod

import numpy as np

from ..core import gen, ref, tol

ID = "C02"
RULE = ("seeded random operands per function over enumerated option classes; a case is non-trivial when some "
        "contracted/combined dimension is > 1 and the result has > 1 entry or a sum of > 1 terms; distinct = distinct "
        "(function, shapes, options, dtype, value-kind) descriptors")
ASSUMPTIONS = ["numpy.einsum with explicit subscripts is the trusted reference", "NumPy backend only",
               "multi_mode_dot: skip only combined with sorted/default modes; modes are distinct",
               "complex inner is the bilinear form both backends document; MTTKRP weights are real",
               "khatri_rao masks have the full N-d shape the library itself passes"]
FUNS = ["mode_dot", "multi_mode_dot", "kronecker", "khatri_rao", "inner", "outer", "batched_outer", "tensordot",
        "mttkrp", "mttkrp_memory", "higher_order_moment", "sample_khatri_rao"]
DTYPES = ["float64", "float64", "float32", "complex128"]
KINDS = ["gauss", "gauss", "int", "scaled"]


def plan(tier, seed):
    n = 24000 if tier == "quick" else 360000
    return [{"gen": FUNS[i % len(FUNS)], "idx": i, "seed": seed} for i in range(n)]


def floors(tier):
    f = {}
    for fn in FUNS:
        f["checked/%s/core" % fn] = 100
        if fn not in ("mttkrp_memory", "sample_khatri_rao"):
            f["checked/%s/einsum" % fn] = 100
    f["cross_backend_compared"] = 1000
    return f


def bounds(tier):
    return {"orders": "1-4", "mode_sizes": "1-4", "columns": "1-4", "dtypes": sorted(set(DTYPES)), "value_kinds": sorted(set(KINDS))}


def _call(f, *a, **k):
    try:
        return ("ok", f(*a, **k))
    except Exception as e:  # noqa
        return ("raise", e)


def run_case(case, ctx):
    import tensorly as tl
    from tensorly import tenalg
    from tensorly.tenalg.core_tenalg.mttkrp import unfolding_dot_khatri_rao_memory
    from tensorly.decomposition import sample_khatri_rao

    fn = case["gen"]
    rs = gen.rng(case["seed"], case["idx"], fn)
    dt = gen.choice(rs, DTYPES)
    kind = gen.choice(rs, KINDS)
    eps = tol.eps_of(dt)

    # operands of different dtypes (the first operand built is the tensor / first matrix): an integer or real tensor with float or
    # complex partners must give the promoted result of the index formula, whatever buffer the implementation allocates
    mix = gen.choice(rs, ["uniform"] * 5 + ["int-first", "real-first", "complex-first"])
    if mix == "real-first" and np.dtype(dt).kind != "c" or mix == "complex-first" and np.dtype(dt).kind == "c":
        mix = "uniform"
    n_built = [0]

    def A(shape, dtype=None, k=None):
        n_built[0] += 1
        if dtype is None and n_built[0] == 1 and mix != "uniform":
            if mix == "int-first":
                return gen.arr(rs, shape, "float64", "int").astype(np.int64)
            if mix == "real-first":
                return gen.arr(rs, shape, "float64", k or kind)
            return gen.arr(rs, shape, "complex128", k or kind)
        return gen.arr(rs, shape, dtype or dt, k or kind)

    desc = {"fn": fn, "dtype": dt, "kind": kind, "mix": mix}
    backends = ["core", "einsum"]
    cls = "generic"
    nontrivial = True

    # ---- build (callable per backend, reference) ---------------------------------------------
    if fn == "mode_dot":
        order = rs.randint(1, 5)
        shp = gen.shape(rs, order)
        mode = rs.randint(order)
        T = A(shp)
        vec = rs.rand() < 0.4
        transpose = bool(rs.rand() < 0.4)
        if vec:
            M = A([shp[mode]])
        else:
            J = rs.randint(1, 5)
            M = A([shp[mode], J] if transpose else [J, shp[mode]])
        desc.update(shape=shp, mode=int(mode), vec=vec, transpose=transpose, M=list(M.shape))
        cls = ("vector" if vec else "matrix") + ("+transpose" if transpose else "")
        neg = bool(rs.rand() < 0.25)     # the mode counted from the end, NumPy style
        if neg:
            cls += "+negmode"
        f = lambda: tenalg.mode_dot(T, M, int(mode) - (order if neg else 0), transpose=transpose)
        r = ref.mode_dot(T, M, mode, transpose)
        nontrivial = shp[mode] > 1
    elif fn == "multi_mode_dot":
        order = rs.randint(1, 5)
        shp = gen.shape(rs, order)
        T = A(shp)
        transpose = bool(rs.rand() < 0.4)
        explicit = rs.rand() < 0.5
        if explicit:
            k = rs.randint(1, order + 1)
            modes = sorted(rs.choice(order, size=k, replace=False).tolist())
            unsorted = rs.rand() < 0.5
            if unsorted:
                modes = rs.permutation(modes).tolist()
        else:
            modes = list(range(order))
        ops = []
        for m in modes:
            if rs.rand() < 0.4:
                ops.append(A([shp[m]]))
            else:
                J = rs.randint(1, 5)
                ops.append(A([shp[m], J] if transpose else [J, shp[m]]))
        skip = None
        if modes == sorted(modes) and rs.rand() < 0.4:
            skip = int(rs.randint(len(modes)))
        nvec = sum(o.ndim == 1 for o in ops)
        desc.update(shape=shp, modes=modes if explicit else None, skip=skip, transpose=transpose, ops=[list(o.shape) for o in ops])
        cls = ("allvec" if nvec == len(ops) else "mixed" if nvec else "matrices") + ("+transpose" if transpose else "") + \
              ("+skip" if skip is not None else "") + ("+unsortedmodes" if modes != sorted(modes) else "")
        if transpose and nvec and np.dtype(dt).kind == "c":
            cls += "+complexvec"
        negm = explicit and bool(rs.rand() < 0.25)
        modes_arg = [m - order if (negm and rs.rand() < 0.6) else m for m in modes]
        if negm and any(m < 0 for m in modes_arg):
            cls += "+negmodes"
        # the modes in any container a caller may pass, one-shot iterables included (reversed(...), a generator, map)
        mform = gen.choice(rs, ["list", "list", "tuple", "array", "iterator", "generator"]) if explicit else "default"
        if mform != "default" and mform != "list":
            cls += "+modes-" + mform
        mk_modes = {"default": lambda: None, "list": lambda: list(modes_arg), "tuple": lambda: tuple(modes_arg), "array": lambda: np.array(modes_arg),
                    "iterator": lambda: iter(list(modes_arg)), "generator": lambda: (m_ for m_ in list(modes_arg))}[mform]
        f = lambda: tenalg.multi_mode_dot(T, list(ops), modes=mk_modes(), skip=skip, transpose=transpose)
        r = ref.multi_mode_dot(T, ops, modes, skip, transpose)
        nontrivial = prod(shp) > 1
    elif fn == "kronecker":
        n = rs.randint(1, 5)
        mats = [A([rs.randint(1, 4), rs.randint(1, 4)]) for _ in range(n)]
        skip = int(rs.randint(n)) if (n > 1 and rs.rand() < 0.4) else None
        reverse = bool(rs.rand() < 0.4)
        desc.update(mats=[list(m.shape) for m in mats], skip=skip, reverse=reverse)
        cls = "n%d" % min(n - (skip is not None), 2) + ("+reverse" if reverse else "")
        f = lambda: tenalg.kronecker(list(mats), skip_matrix=skip, reverse=reverse)
        r = ref.kronecker(mats, skip, reverse)
        nontrivial = n - (skip is not None) > 1
    elif fn == "khatri_rao":
        n = rs.randint(1, 5)
        R = rs.randint(1, 5)
        mats = [A([rs.randint(1, 5), R]) for _ in range(n)]
        skip = int(rs.randint(n)) if (n > 1 and rs.rand() < 0.5) else None
        w = A([R], k="gauss") if rs.rand() < 0.5 else None
        rem = [m for i, m in enumerate(mats) if i != skip]
        mask = None
        if rs.rand() < 0.3:
            mask = (rs.uniform(size=[m.shape[0] for m in rem]) < 0.6).astype(dt)
            if rs.rand() < 0.3:
                # a weighting mask (fractional / signed observation weights): "applied entrywise" means multiplied in
                mask = (mask * rs.uniform(-1, 2, size=mask.shape)).astype(dt)
            elif rs.rand() < 0.3 and mask.size >= 2:
                # confidence weights normalised to mean one: their sum equals the number of entries although none of them is one
                flat = np.full(mask.size, 1.0)
                half = mask.size // 2
                flat[:half], flat[half:2 * half] = 0.5, 1.5
                mask = rs.permutation(flat).reshape(mask.shape).astype(dt)
        desc.update(mats=[list(m.shape) for m in mats], skip=skip, weights=w is not None, mask=mask is not None)
        cls = ("single" if len(rem) == 1 else "multi") + ("+weights" if w is not None else "") + ("+mask" if mask is not None else "")
        if w is not None and np.dtype(dt).kind == "f" and rs.rand() < 0.3:
            # weights written out as plain Python numbers, next to an integer-valued selection / count matrix kept in an integer dtype:
            # the product is the product of the values, whatever the containers
            w_arg = [float(x) for x in w] if rs.rand() < 0.7 else tuple(float(x) for x in w)
            if rs.rand() < 0.6:
                j0 = 0 if skip != 0 else 1
                if j0 < len(mats):
                    mats[j0] = rs.randint(-2, 3, size=mats[j0].shape).astype(gen.choice(rs, ["int64", "int32"]))
                    rem = [m for i, m in enumerate(mats) if i != skip]
                    cls += "+int-first"
            cls += "+listweights"
        else:
            w_arg = w
        f = lambda: tenalg.khatri_rao(list(mats), weights=w_arg, skip_matrix=skip, mask=mask)
        r = ref.khatri_rao(mats, w, skip, mask)
        nontrivial = len(rem) > 1 or w is not None or mask is not None
    elif fn == "inner":
        if rs.rand() < 0.4:
            shp = gen.shape(rs, rs.randint(1, 5))
            t1, t2 = A(shp), A(shp)
            nm = None
        else:
            nm = int(rs.randint(1, 4))
            common = gen.shape(rs, nm)
            s1 = gen.shape(rs, rs.randint(0, 3)) + common
            s2 = common + gen.shape(rs, rs.randint(0, 3))
            t1, t2 = A(s1), A(s2)
        desc.update(s1=list(t1.shape), s2=list(t2.shape), n_modes=nm)
        cls = "full" if nm is None else "partial"
        f = lambda: tenalg.inner(t1, t2, n_modes=nm)
        r = ref.inner(t1, t2, nm)
    elif fn in ("outer", "batched_outer"):
        n = rs.randint(1, 4)
        if fn == "outer":
            ts = [A(gen.shape(rs, rs.randint(1, 3), 1, 3)) for _ in range(n)]
            r = ref.outer(ts)
            f = lambda: tenalg.outer(list(ts))
        else:
            b = rs.randint(1, 4)
            ts = [A([b] + gen.shape(rs, rs.randint(1, 3), 1, 3)) for _ in range(n)]
            r = ref.outer(ts, batched=True)
            f = lambda: tenalg.batched_outer(list(ts))
        desc.update(shapes=[list(t.shape) for t in ts])
        cls = "single" if n == 1 else "multi"
        nontrivial = n > 1
    elif fn == "tensordot":
        o1, o2 = rs.randint(1, 5), rs.randint(1, 5)
        nb = rs.randint(0, min(o1, o2, 2) + 1) if rs.rand() < 0.5 else 0
        nc = rs.randint(0, min(o1, o2) - nb + 1)
        s1, s2 = gen.shape(rs, o1), gen.shape(rs, o2)
        ax1 = rs.permutation(o1)[:nb + nc].tolist()
        ax2 = rs.permutation(o2)[:nb + nc].tolist()
        for a1, a2 in zip(ax1, ax2):
            s2[a2] = s1[a1]
        m1, m2, b1, b2 = ax1[:nc], ax2[:nc], ax1[nc:], ax2[nc:]
        t1, t2 = A(s1), A(s2)
        form = "pair"
        modes_arg = (list(m1), list(m2))
        if nc and nb == 0 and rs.rand() < 0.3:
            # integer form: last nc modes of t1 with first nc modes of t2
            s2i = list(s1[o1 - nc:]) + gen.shape(rs, max(o2 - nc, 0))
            t2 = A(s2i)
            m1, m2 = list(range(o1 - nc, o1)), list(range(nc))
            modes_arg = int(nc)
            form = "int"
        batched_arg = (list(b1), list(b2))
        neg = False
        if form == "pair" and rs.rand() < 0.35:
            # the same modes written as negative indices (documented: normalised by _validate_contraction_modes), independently per tensor
            neg = True
            o1n, o2n = t1.ndim, t2.ndim
            pick = lambda lst, o: [(m - o if rs.rand() < 0.6 else m) for m in lst]
            modes_arg = (pick(m1, o1n), pick(m2, o2n))
            batched_arg = (pick(b1, o1n), pick(b2, o2n))
            if rs.rand() < 0.5:
                modes_arg = (tuple(modes_arg[0]), tuple(modes_arg[1]))
                batched_arg = (tuple(batched_arg[0]), tuple(batched_arg[1]))
        desc.update(s1=list(t1.shape), s2=list(t2.shape), modes=[m1, m2], batched=[b1, b2], form=form, negative_indices=neg, modes_arg=[list(modes_arg[0]), list(modes_arg[1])] if form == "pair" else modes_arg)
        cls = ("batched" if nb else "plain") + ("+nocontract" if not nc else "") + "+" + form + ("+negidx" if neg else "")
        f = lambda: tenalg.tensordot(t1, t2, modes_arg, batched_modes=batched_arg)
        r = ref.tensordot(t1, t2, m1, m2, b1, b2)
    elif fn in ("mttkrp", "mttkrp_memory"):
        order = rs.randint(2, 5)
        shp = gen.shape(rs, order)
        R = rs.randint(1, 5)
        T = A(shp)
        factors = [A([s, R]) for s in shp]
        w = gen.arr(rs, [R], "float32" if dt == "float32" else "float64", "gauss") if rs.rand() < 0.5 else None
        mode = int(rs.randint(order))
        desc.update(shape=shp, rank=int(R), mode=mode, weights=w is not None)
        cls = ("order2" if order == 2 else "orderN") + ("+weights" if w is not None else "")
        if fn == "mttkrp":
            f = lambda: tenalg.unfolding_dot_khatri_rao(T, (w, list(factors)), mode)
        else:
            f = lambda: unfolding_dot_khatri_rao_memory(T, (w, list(factors)), mode)
            backends = ["core"]
        r = ref.mttkrp(T, w, factors, mode)
    elif fn == "higher_order_moment":
        n = rs.randint(1, 5)
        feat = gen.shape(rs, rs.randint(1, 4), 1, 3)     # samples that are vectors, matrices or order-3 tensors
        order = int(rs.randint(1, 4))
        if (case["idx"] // len(FUNS)) % 500 == 1:
            # many samples: implementations that accumulate over slabs of samples must weight the slabs by their size
            n, feat, order = int(rs.randint(4100, 4300)), [16], 3
        X = A([n] + feat)
        desc.update(shape=list(X.shape), order=order)
        cls = "order%d" % min(order, 2) + ("+many-samples" if n > 1000 else "")
        f = lambda: tenalg.higher_order_moment(X, order)
        r = ref.higher_order_moment(X, order)
    elif fn == "sample_khatri_rao":
        n = rs.randint(1, 5)
        R = rs.randint(1, 5)
        given = rs.rand() < 0.5
        # caller-supplied index arrays may have any integer dtype (int8 labels, uint8 ...): the row number in the full product
        # must not be computed in that dtype; the narrow variants use products of row counts beyond 127 / 255
        idt = gen.choice(rs, ["int64", "int64", "int32", "int8", "uint8", "int16"]) if given else "int64"
        if idt in ("int8", "uint8"):
            n = int(rs.randint(3, 5))
            mats = [A([rs.randint(4, 8), R]) for _ in range(n)]
        else:
            mats = [A([rs.randint(1, 5), R]) for _ in range(n)]
        skip = int(rs.randint(n)) if (n > 1 and rs.rand() < 0.5) else None
        rem = [m for i, m in enumerate(mats) if i != skip]
        ns = int(rs.randint(1, 9))
        il = [rs.randint(0, m.shape[0], size=ns).astype(idt) for m in rem] if given else None
        sd = int(rs.randint(0, 2 ** 31 - 1))
        desc.update(mats=[list(m.shape) for m in mats], skip=skip, n_samples=ns, indices_given=given)
        cls = ("given" if given else "drawn") + ("+" + idt if idt != "int64" else "")
        backends = ["core"]
        full = ref.khatri_rao(mats, None, skip, None)

        def f():
            out = sample_khatri_rao(list(mats), ns, skip_matrix=skip, indices_list=(None if il is None else [np.array(i) for i in il]),
                                    return_sampled_rows=True, random_state=sd)
            return out
        r = None
    else:
        raise ValueError(fn)

    if mix != "uniform" and n_built[0] > 1:
        cls = cls + "+" + mix
        ctx.count("mixed_dtype_operands")
    if nontrivial:
        ctx.nontriv(desc)
    ctx.sample({"case": desc, "class": cls}, limit=6)

    # ---- run under both backends --------------------------------------------------------------
    results = {}
    prev = tenalg.get_backend()
    try:
        for be in backends:
            tenalg.set_backend(be)
            assert tenalg.get_backend() == be
            results[be] = _call(f)
    finally:
        tenalg.set_backend(prev)

    if fn == "sample_khatri_rao":
        st, out = results["core"]
        ctx.count("checked/%s/core" % fn)
        if st == "raise":
            ctx.violation("C02:sample_khatri_rao:raises:%s" % type(out).__name__, "sample_khatri_rao raised %r" % (out,), desc)
            return
        skr, indices, ikr = out
        ikr = np.asarray(ikr)
        okv, worst = tol.formula_close(skr, full[0][ikr], full[1][ikr], eps, 1)
        sizes = [m.shape[0] for m in rem]
        exp_ikr = np.zeros(ns, dtype=int)
        for s, ind in zip(sizes, indices):
            exp_ikr = exp_ikr * s + np.asarray(ind)
        if not okv or not np.array_equal(exp_ikr, ikr) or (given and any(not np.array_equal(a, b) for a, b in zip(indices, il))):
            ctx.violation("C02:sample_khatri_rao:formula:%s" % cls, "sampled rows are not rows indices_kr of the full Khatri-Rao product",
                          {"desc": desc, "worst_ratio": worst, "indices_kr": ikr, "expected_indices_kr": exp_ikr})
        return

    val, ab, nterms = r
    for be in backends:
        st, out = results[be]
        ctx.count("checked/%s/%s" % (fn, be))
        ctx.count("class/%s/%s" % (fn, cls))
        if st == "raise":
            ctx.violation("C02:%s:%s:raises:%s:%s" % (fn, be, type(out).__name__, cls),
                          "%s under tenalg backend %s raised %s: %s" % (fn, be, type(out).__name__, str(out)[:200]), desc)
            continue
        out = np.asarray(out)
        okv, worst = tol.formula_close(out, val, ab, eps, nterms)
        if not okv:
            ctx.violation("C02:%s:%s:formula:%s" % (fn, be, cls),
                          "%s under tenalg backend %s differs from its index formula (worst err/bound=%.3g, shapes got %s ref %s)" % (
                              fn, be, worst, out.shape, np.shape(val)),
                          {"desc": desc, "got": out, "ref": val})
    if len(backends) == 2 and results["core"][0] == "ok" and results["einsum"][0] == "ok":
        a, b = np.asarray(results["core"][1]), np.asarray(results["einsum"][1])
        ctx.count("cross_backend_compared")
        okv, worst = tol.formula_close(a, b, 2 * ab, eps, nterms) if a.shape == b.shape else (False, float("inf"))
        if not okv:
            ctx.violation("C02:%s:backends-disagree:%s" % (fn, cls),
                          "core and einsum results differ for %s (worst err/bound=%.3g)" % (fn, worst), {"desc": desc, "core": a, "einsum": b})
