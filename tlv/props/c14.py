"""C14 — warm starts begin at the supplied decomposition; fixed modes stay fixed.

Clauses: (zero-budget) n_iter_max=0 returns a decomposition representing the same tensor as the init, whatever its
weights; (absorbed) an init with weights and the same tensor with the weights folded into a factor give the same
iterates after 1-3 sweeps; (fixed) factors of fixed modes are returned bit-identical; (all-fixed) fixing every mode
returns the initialisation.
"""
import numpy as np

from ..core import gen, ref, tol, decomp

ID = "C14"
RULE = ("seeded (algorithm, data, user initialisation with unit / positive / negative / mixed weights, fixed-mode subset, budget) "
        "configurations; non-trivial = non-unit weights or a non-empty fixed set; distinct = distinct configuration descriptors")
ASSUMPTIONS = ["non-negative algorithms get non-negative weights and factors (their domain)",
               "Tucker fixed factors are orthonormal (HOOI's domain)",
               "absorbed-weights equivalence: exact ALS (parafac, PARAFAC2) is invariant to which factor carries the scale; the "
               "multiplicative, ADMM and (inexact inner loop) HALS variants are not, so there the weights are absorbed into the last factor",
               "fixed modes are combined with normalize_factors=False"]
GENS = ["parafac", "nn_parafac", "nn_parafac_hals", "constrained_parafac", "tucker", "nn_tucker_hals", "parafac2"]
CASE_TIMEOUT = {"quick": 120, "thorough": 120}


def plan(tier, seed):
    n = 7000 if tier == "quick" else 84000
    return [{"gen": GENS[i % len(GENS)], "idx": i, "seed": seed} for i in range(n)]


def floors(tier):
    f = {"checked/%s" % g: 100 for g in GENS}
    f.update({"clause/zero-budget": 400, "clause/absorbed": 300, "clause/fixed-bit-identical": 300, "clause/all-fixed": 100})
    return f


def bounds(tier):
    return {"orders": "2-4", "mode_sizes": "2-6", "ranks": "1-3", "budgets": "0-3"}


def _close(a, b, scale, eps, c=1e4):
    a, b = ref.hp(a), ref.hp(b)
    return a.shape == b.shape and np.all(np.isfinite(a)) and float(np.max(np.abs(a - b))) <= c * eps * scale


def run_case(case, ctx):
    try:
        _run_case(case, ctx)
    except np.linalg.LinAlgError:
        ctx.skip("%s: singular block problem (LinAlgError)" % case["gen"])


def _run_case(case, ctx):
    import tensorly as tl
    from tensorly import decomposition as D
    from tensorly.cp_tensor import CPTensor
    from tensorly.tucker_tensor import TuckerTensor
    from tensorly.parafac2_tensor import Parafac2Tensor
    import warnings
    warnings.simplefilter("ignore")

    algo = case["gen"]
    rs = gen.rng(case["seed"], case["idx"], algo)
    dt = "float64"
    eps = tol.eps_of(dt)
    ctx.count("checked/%s" % algo)
    nonneg = algo in ("nn_parafac", "nn_parafac_hals", "nn_tucker_hals")
    seed = int(rs.randint(0, 2 ** 31 - 1))

    def viol(clause, cls, what, wit=None):
        ctx.violation("C14:%s:%s:%s" % (algo, clause, cls), what, wit)

    if algo in ("parafac", "nn_parafac", "nn_parafac_hals", "constrained_parafac"):
        data = decomp.make_data(rs, algo, dt, cls=gen.choice(rs, ["nonneg", "nonneg-lowrank"] if nonneg else ["generic", "lowrank", "nonneg"]), order=int(rs.randint(2, 5)))
        X = data["X"]
        order, shp = X.ndim, list(X.shape)
        R = int(rs.randint(1, 4))
        # negative weights are legal for every algorithm as far as the zero-budget clause goes ("whatever its weights");
        # sweeps of the non-negative algorithms are only run from non-negative starts (their domain)
        wk = gen.choice(rs, ["ones", "positive", "positive", "some-ones", "negative-zero-budget-only", "mixed-zero-budget-only"] if (nonneg or algo == "constrained_parafac")
                        else ["ones", "positive", "negative", "mixed", "some-ones"])
        zero_only = wk.endswith("zero-budget-only")
        wk = wk.replace("-zero-budget-only", "")
        if wk == "some-ones":
            # some (not all) weights exactly one: "are the weights trivial?" shortcuts must not treat this vector as all-ones
            R = max(R, 2)
        w = {"ones": np.ones(R), "positive": rs.uniform(0.3, 3, R), "negative": -rs.uniform(0.3, 3, R), "mixed": rs.uniform(0.3, 3, R) * rs.choice([-1, 1], R),
             "some-ones": rs.uniform(0.3, 3, R)}[wk]
        if wk == "some-ones":
            ones_at = rs.choice(R, size=int(rs.randint(1, R)), replace=False)
            w[ones_at] = 1.0
        fs = [(rs.uniform(0.1, 1, (s, R)) if nonneg else rs.standard_normal((s, R))) for s in shp]
        form = gen.choice(rs, ["tuple", "list", "wrapper"])
        opts = {}
        if algo == "constrained_parafac":
            # constraints whose proximal operator is not the identity on the supplied factors included: a supplied decomposition is
            # documented as taken as it is (no projection of the start), whatever its weights
            opts = gen.choice(rs, [{"non_negative": True}, {"non_negative": True}, {"l2_square_reg": 0.01}, {"l1_reg": 0.1}, {"normalize": True}, {"l2_reg": 0.05}])
            if "non_negative" in opts:
                fs = [np.abs(f) for f in fs]

        none_weights = bool(wk == "ones" and rs.rand() < 0.5)   # unit weights spelled as None

        def mk_init(w_, fs_):
            if none_weights and w_ is not None and np.all(w_ == 1):
                w_ = None
            if form == "tuple":
                return (None if w_ is None else w_.copy(), [f.copy() for f in fs_])
            if form == "list":
                return [None if w_ is None else w_.copy(), [f.copy() for f in fs_]]
            return CPTensor((np.ones(R) if w_ is None else w_.copy(), [f.copy() for f in fs_]))
        init_dense, absb, _ = ref.cp_dense(w, fs)
        scale = float(np.max(absb)) + 1e-300
        desc = {"algo": algo, "shape": shp, "rank": R, "weights": wk, "form": form, "opts": opts}
        if wk != "ones":
            ctx.nontriv(dict(desc, clause="weights"))
        ctx.sample({"case": desc}, 6)
        # (zero-budget)
        ctx.count("clause/zero-budget")
        r0 = decomp.run(algo, data, R, 0, dict(opts), seed, tol=1e-100, init=mk_init(w, fs))
        d0 = decomp.dense(algo, decomp.snapshot(r0["decomp"]))
        if not _close(d0, init_dense, scale, eps):
            viol("zero-budget", "weights-" + wk, "n_iter_max=0 returns a decomposition representing a different tensor than the init (max diff %.3g, scale %.3g)" % (
                float(np.nanmax(np.abs(ref.hp(d0) - init_dense))), scale), desc)
            return
        if zero_only:
            return
        # (absorbed)
        if wk != "ones":
            ctx.count("clause/absorbed")
            # only exact block solvers are invariant to which factor carries the scale; HALS runs a fixed number of inner
            # coordinate sweeps (inexact), so its iterates depend on the scaling at the 1e-5 level (thorough-tier false alarm)
            k = int(rs.randint(order)) if algo == "parafac" else order - 1
            fs2 = [f.copy() for f in fs]
            fs2[k] = fs2[k] * w
            sweeps = int(rs.randint(1, 4))
            ra = decomp.run(algo, data, R, sweeps, dict(opts), seed, tol=1e-100, init=mk_init(w, fs))
            rb = decomp.run(algo, data, R, sweeps, dict(opts), seed, tol=1e-100, init=mk_init(None, fs2))
            da, db = decomp.dense(algo, decomp.snapshot(ra["decomp"])), decomp.dense(algo, decomp.snapshot(rb["decomp"]))
            sc2 = max(float(np.max(np.abs(X))), scale) * 10
            condw = float(np.max(np.abs(w)) / np.min(np.abs(w)))
            if not _close(da, db, sc2 * condw ** 2, eps, c=1e7):
                viol("absorbed-weights-iterates", "weights-" + wk, "after %d sweeps the run started from (weights, factors) and the run started from the same tensor with the weights "
                     "absorbed into factor %d differ by %.3g (scale %.3g)" % (sweeps, k, float(np.nanmax(np.abs(ref.hp(da) - ref.hp(db)))), sc2), desc)
                return
        # (fixed)
        nfix = int(rs.randint(1, order + 1))
        fixed = sorted(rs.choice(order, size=nfix, replace=False).tolist())
        if algo != "nn_parafac_hals":
            fixed = [m for m in fixed if m != order - 1] or [0]   # the last mode cannot be fixed there (documented; it is dropped with a warning)
        all_fixed = len(fixed) == order
        if algo in ("parafac",) and rs.rand() < 0.25:
            fixed = list(range(order))
            all_fixed = True
        sweeps = int(rs.randint(0, 4))
        # the set of fixed modes in any container a caller may reasonably pass
        cont = gen.choice(rs, ["list", "list", "tuple", "range", "array"])
        if cont == "range" and fixed != list(range(fixed[0], fixed[0] + len(fixed))):
            cont = "tuple"
        if cont == "array" and algo != "nn_parafac_hals":
            cont = "list"       # only the HALS variant documents "array of integers"
        fixed_arg = {"list": list(fixed), "tuple": tuple(fixed), "range": range(fixed[0], fixed[0] + len(fixed)), "array": np.array(fixed)}[cont]
        desc2 = dict(desc, fixed_modes=fixed, sweeps=sweeps, container=cont)
        ctx.nontriv(dict(desc2, clause="fixed"))
        ctx.count("fixed_container/" + cont)
        init_obj = mk_init(w, fs)
        try:
            rf = decomp.run(algo, data, R, sweeps, dict(opts, fixed_modes=fixed_arg), seed, tol=1e-100, init=init_obj)
        except np.linalg.LinAlgError:
            raise
        except Exception as e:  # noqa
            viol("fixed-raises-%s" % type(e).__name__, "all-fixed" if all_fixed else "some-fixed", "fixed_modes=%s raised %s: %s" % (fixed, type(e).__name__, str(e)[:150]), desc2)
            return
        if rf.get("bare_return"):
            viol("return-contract", "all-fixed" if all_fixed else "some-fixed", "with return_errors=True and fixed_modes=%s the call returned a bare %s instead of (decomposition, errors): "
                 "`dec, errs = ...` silently unpacks the weights and the factor list" % (fixed, type(rf["decomp"]).__name__), desc2)
            return
        wf, ff = decomp.snapshot(rf["decomp"])
        carrier = order - 1  # the weights of the init may legitimately be folded into the last factor
        if all_fixed:
            ctx.count("clause/all-fixed")
            dfix = decomp.dense(algo, (wf, ff))
            if not _close(dfix, init_dense, scale, eps):
                viol("all-fixed", "weights-" + wk, "all modes fixed but the returned decomposition represents a different tensor (max diff %.3g)" % float(np.nanmax(np.abs(ref.hp(dfix) - init_dense))), desc2)
                return
        ctx.count("clause/fixed-bit-identical")
        for m in fixed:
            if m == carrier and wk != "ones":
                continue
            if not (ff[m].shape == fs[m].shape and np.array_equal(ff[m], fs[m])):
                viol("fixed-bit-identical", "weights-" + wk, "mode %d was declared fixed but its factor changed (max diff %.3g) after %d sweeps" % (m, float(np.max(np.abs(ff[m] - fs[m]))), sweeps), desc2)
                return
        return

    if algo == "tucker":
        order = int(rs.randint(2, 5))
        shp = gen.shape(rs, order, 2, 6)
        X = rs.standard_normal(shp)
        rk = [int(rs.randint(1, min(s, 3) + 1)) for s in shp]
        core = rs.standard_normal(rk)
        fs = [gen.orth(rs, s, r) for s, r in zip(shp, rk)]
        variant = gen.choice(rs, ["real", "real", "complex", "masked"])
        mask = None
        if variant == "complex":      # complex data and a complex orthonormal start: every projection is a conjugate transpose
            X = X + 1j * rs.standard_normal(shp)
            core = core + 1j * rs.standard_normal(rk)
            fs = [np.linalg.qr(rs.standard_normal((s_, r_)) + 1j * rs.standard_normal((s_, r_)))[0] for s_, r_ in zip(shp, rk)]
        elif variant == "masked":     # missing entries: the supplied core is still the starting point
            mask = (rs.uniform(size=shp) < 0.8).astype(float)
        nfix = int(rs.randint(0 if variant != "real" else 1, order + 1))
        fixed = rs.choice(order, size=nfix, replace=False).tolist()   # in any order
        if rs.rand() < 0.4:
            fixed = sorted(fixed)
        if rs.rand() < 0.3:
            fixed = tuple(fixed)
        sweeps = int(rs.randint(0, 4))
        form = gen.choice(rs, ["tuple", "wrapper"])
        init = (core.copy(), [f.copy() for f in fs])
        if form == "wrapper":
            init = TuckerTensor(init)
        all_fixed = len(fixed) == order
        desc = {"algo": algo, "shape": shp, "rank": rk, "fixed": list(fixed), "fixed_sorted": list(fixed) == sorted(fixed), "sweeps": sweeps, "form": form, "variant": variant}
        ctx.count("tucker_variant/" + variant)
        ctx.nontriv(desc)
        ctx.sample({"case": desc}, 3)
        init_dense, absb, _ = ref.tucker_dense(core, fs)
        scale = float(np.max(absb)) + 1e-300
        try:
            ff = (list(fixed) if isinstance(fixed, list) else fixed) if len(fixed) else None
            want_errors = bool(rs.rand() < 0.5)
            out = D.tucker(X, rk, fixed_factors=ff, n_iter_max=sweeps, init=init, tol=0, random_state=seed, return_errors=want_errors, **({"mask": mask} if mask is not None else {}))
            if want_errors:
                ctx.count("clause/return-contract")
                if not (type(out) is tuple and len(out) == 2 and isinstance(out[1], list)):
                    viol("return-contract", "all-fixed" if all_fixed else "some-fixed", "tucker(fixed_factors=%s, return_errors=True) returned %s instead of (decomposition, errors)" % (
                        fixed, type(out).__name__), desc)
                    return
                out = out[0]
        except Exception as e:  # noqa
            viol("fixed-raises-%s" % type(e).__name__, "all-fixed" if all_fixed else "some-fixed", "tucker(fixed_factors=%s) raised %s: %s" % (fixed, type(e).__name__, str(e)[:150]), desc)
            return
        oc, of = decomp.snapshot(out)
        ctx.count("clause/fixed-bit-identical")
        for m in fixed:
            if not np.array_equal(of[m], fs[m]):
                viol("fixed-bit-identical", "any", "fixed factor %d changed (max diff %.3g)" % (m, float(np.max(np.abs(of[m] - fs[m])))), desc)
                return
        if sweeps == 0 or all_fixed:
            ctx.count("clause/zero-budget" if sweeps == 0 else "clause/all-fixed")
            d0 = ref.tucker_dense(oc, of)[0]
            if not _close(d0, init_dense, scale * 10, eps):
                viol("zero-budget" if sweeps == 0 else "all-fixed", "any" if variant == "real" else variant, "returned Tucker tensor represents a different tensor than the init (max diff %.3g)" % float(np.nanmax(np.abs(d0 - init_dense))), desc)
        return

    if algo == "nn_tucker_hals":
        order = int(rs.randint(2, 5))
        shp = gen.shape(rs, order, 2, 5)
        X = rs.uniform(0, 1, shp)
        rk = [int(rs.randint(1, min(s, 3) + 1)) for s in shp]
        core = rs.uniform(0.1, 1, rk)
        fs = [rs.uniform(0.1, 1, (s, r)) for s, r in zip(shp, rk)]
        nfix = int(rs.randint(0, order))
        fixed = sorted(rs.choice(order - 1, size=min(nfix, order - 1), replace=False).tolist()) if nfix else []
        sweeps = int(rs.randint(0, 3))
        desc = {"algo": algo, "shape": shp, "rank": rk, "fixed": fixed, "sweeps": sweeps}
        if fixed:
            ctx.nontriv(desc)
        init_dense, absb, _ = ref.tucker_dense(core, fs)
        init_obj = (core.copy(), [f.copy() for f in fs])
        if rs.rand() < 0.4:
            # history: the same start object was first handed to the multiplicative-update variant (a quick pre-fit); this run still
            # begins at the decomposition the caller supplied
            ctx.count("start_object_used_by_an_earlier_run")
            desc["start_object_reused"] = True
            D.non_negative_tucker(X, rk, init=init_obj, n_iter_max=int(rs.randint(1, 4)), tol=0)
        try:
            out = D.non_negative_tucker_hals(X, rk, n_iter_max=sweeps, init=init_obj, fixed_modes=list(fixed) or None, tol=0,
                                             algorithm=gen.choice(rs, ["fista", "active_set"]))
        except np.linalg.LinAlgError:
            raise
        except Exception as e:  # noqa
            viol("fixed-raises-%s" % type(e).__name__, "some-fixed" if fixed else "none-fixed", "non_negative_tucker_hals(fixed_modes=%s, user init) raised %s: %s" % (fixed, type(e).__name__, str(e)[:150]), desc)
            return
        oc, of = decomp.snapshot(out)
        if fixed:
            ctx.count("clause/fixed-bit-identical")
            for m in fixed:
                if not np.array_equal(of[m], fs[m]):
                    viol("fixed-bit-identical", "any", "fixed factor %d changed (max diff %.3g)" % (m, float(np.max(np.abs(of[m] - fs[m])))), desc)
                    return
        if sweeps == 0:
            ctx.count("clause/zero-budget")
            d0 = ref.tucker_dense(oc, of)[0]
            if not _close(d0, init_dense, float(np.max(absb)), eps):
                viol("zero-budget", "any", "n_iter_max=0 returns a different tensor than the init", desc)
        return

    # ---- parafac2 ------------------------------------------------------------------------------------------
    data = decomp.make_data(rs, "parafac2", dt, cls=gen.choice(rs, ["generic", "lowrank"]))
    sl = data["slices"]
    I, K = len(sl), sl[0].shape[1]
    R = decomp.pick_rank(rs, "parafac2", data)
    wk = gen.choice(rs, ["ones", "positive", "negative", "mixed"])
    w = {"ones": np.ones(R), "positive": rs.uniform(0.3, 3, R), "negative": -rs.uniform(0.3, 3, R), "mixed": rs.uniform(0.3, 3, R) * rs.choice([-1, 1], R)}[wk]
    A = rs.uniform(0.5, 2, (I, R))
    B = rs.standard_normal((R, R)) + 2 * np.eye(R)
    intB = bool(rs.rand() < 0.25)
    if intB:
        # a hand-typed coupling matrix (identity / small integers) stored with an integer dtype: it carries no information about the
        # precision of the weights it is combined with
        B = (np.eye(R) * 2 + rs.randint(0, 2, (R, R))).astype(np.int64)
    C = rs.standard_normal((K, R))
    form = gen.choice(rs, ["parafac2-tuple", "parafac2-wrapper", "cp-tuple"])
    desc = {"algo": algo, "shapes": data["shape"], "rank": R, "weights": wk, "form": form, "integer_B": intB}
    if form == "cp-tuple":
        J = sl[0].shape[0]
        if any(s.shape[0] != J for s in sl) or J < R:
            form = "parafac2-tuple"
            desc["form"] = form
    if form == "cp-tuple":
        Bfull = rs.standard_normal((sl[0].shape[0], R))
        mk = lambda w_, A_: (None if w_ is None else w_.copy(), [A_.copy(), Bfull.copy(), C.copy()])
        init_slices = [ref.es("jr,r,kr" + (",r" if True else "") + "->jk", Bfull, A[i], C, w)[0] for i in range(I)]
    else:
        P = [gen.orth(rs, s.shape[0], R) for s in sl]

        def mk(w_, A_):
            t = (None if w_ is None else w_.copy(), [A_.copy(), B.copy(), C.copy()], [p.copy() for p in P])
            return Parafac2Tensor(t) if form == "parafac2-wrapper" else t
        init_slices = [ref.es("jr,rs,s,ks,s->jk", P[i], B, A[i], C, w)[0] for i in range(I)]
    if wk != "ones":
        ctx.nontriv(desc)
    ctx.sample({"case": desc}, 3)
    scale = max(float(np.max(np.abs(s))) for s in init_slices) + 1.0
    ctx.count("clause/zero-budget")
    r0 = decomp.run("parafac2", data, R, 0, {"linesearch": False}, seed, tol=1e-100, init=mk(w, A))
    d0 = decomp.dense("parafac2", decomp.snapshot(r0["decomp"]))
    if any(not _close(a, b, scale * 10, eps) for a, b in zip(d0, init_slices)):
        viol("zero-budget", "weights-" + wk, "n_iter_max=0 returns a PARAFAC2 tensor representing different slices than the init", desc)
        return
    if wk != "ones":
        ctx.count("clause/absorbed")
        sweeps = int(rs.randint(1, 4))
        ra = decomp.run("parafac2", data, R, sweeps, {"linesearch": False}, seed, tol=1e-100, init=mk(w, A))
        rb = decomp.run("parafac2", data, R, sweeps, {"linesearch": False}, seed, tol=1e-100, init=mk(None, A * w))
        da, db = decomp.dense("parafac2", decomp.snapshot(ra["decomp"])), decomp.dense("parafac2", decomp.snapshot(rb["decomp"]))
        xs = max(float(np.max(np.abs(s))) for s in sl) + scale
        from .c07 import block_cond
        cnd = max(block_cond("parafac2", decomp.snapshot(ra["decomp"])), block_cond("parafac2", decomp.snapshot(rb["decomp"])),
                  block_cond("parafac2", (w, (A, B, C), None)))
        def proj_gap(dec):
            # the projection of slice i is the polar factor of B diag(a_i) C^T X_i^T: unique only if that matrix has full rank
            w_, (A_, B_, C_), _P = dec
            worst = 1.0
            for i, Xi in enumerate(sl):
                ai = ref.hp(A_)[i] * (1.0 if w_ is None else ref.hp(w_))
                sv = np.linalg.svd((ref.hp(B_) * ai) @ ref.hp(C_).T @ ref.hp(Xi).T, compute_uv=False)
                worst = min(worst, float(sv[-1] / sv[0]) if sv[0] > 0 else 0.0)
            return worst
        gap = min(proj_gap((w, (A, B, C), None)), proj_gap(decomp.snapshot(ra["decomp"])), proj_gap(decomp.snapshot(rb["decomp"])))
        if cnd > 1e4 or gap < 1e-6:
            ctx.skip("parafac2 absorbed-weights: ill-posed sweep (block cond > 1e4 or rank-deficient projection problem): iterates not unique")
            return
        if any(not _close(a, b, xs * 100, eps, c=1e7) for a, b in zip(da, db)):
            viol("absorbed-weights-iterates", "weights-" + wk, "PARAFAC2 iterates differ between (weights, factors) and the weights absorbed into A after %d sweeps" % sweeps, desc)
