"""C06 — every reported reconstruction error is finite and equals the true error of the iterate it belongs to.

Recorders (no source hooks): (1) deterministic prefix runs n_iter_max = 1..K with a fixed seed — the last reported
value of run k must be the true error of the decomposition returned by run k, and run k's list must be a prefix of
run K's; (2) callbacks (parafac, randomised_parafac, tensor_ring_als) that deep-copy the iterate they are handed;
(3) a run stopped by its tolerance. True errors are recomputed from scratch with independent einsum reconstructions
and compared on squares (DESIGN §1.5).
"""
import numpy as np

from ..core import gen, ref, tol, decomp

ID = "C06"
RULE = ("seeded (algorithm, data class, rank, option set) configurations; each is executed as K+1 prefix runs plus a "
        "tolerance-stopped run and (where offered) a callback run; non-trivial = at least 2 sweeps with a non-zero error "
        "or an exactly-low-rank fit; distinct = distinct configuration descriptors")
ASSUMPTIONS = ["independent einsum reconstruction is the reference", "prefix runs rely on seeded determinism (C16), itself checked here as the 'prefix' clause",
               "masked CP-ALS (plain / sparse-plus-low-rank): the documented value is the misfit on the tensor imputed from the same iterate, relative to that tensor; other masked variants are not judged", "squares compared: |rep^2-true^2| <= 5e4*eps*(||X||^2+||M||^2+2|<X,M>|)/||X||^2"]
ALGOS = decomp.ALGOS
CASE_TIMEOUT = {"quick": 120, "thorough": 120}


def plan(tier, seed):
    n = 2200 if tier == "quick" else 26400
    return [{"gen": ALGOS[i % len(ALGOS)], "idx": i, "seed": seed} for i in range(n)]


def floors(tier):
    f = {"checked/%s" % a: 30 for a in ALGOS}
    f.update({"values/long-linesearch": 50, "values/last-error": 1500, "values/prefix": 1000, "values/callback": 300, "values/tol-stopped": 300})
    return f


def bounds(tier):
    return {"orders": "2-4", "mode_sizes": "2-6", "ranks": "1-3", "K": "6 (10 with line search)"}


def sq_ok(rep, true, scale, eps, squared_form=False):
    if not np.isfinite(rep):
        return False
    if squared_form:
        return abs(float(rep) - float(true)) <= 5e4 * eps * scale
    return abs(float(rep) ** 2 - float(true) ** 2) <= 5e4 * eps * scale


def seed_of(case):
    return int(gen.rng(case["seed"], case["idx"], "seed").randint(0, 2 ** 31 - 1))


def _with_sparse(dec):
    return type(dec) is tuple and len(dec) == 2 and hasattr(dec[0], "factors")


def run_case(case, ctx):
    try:
        _run_case(case, ctx)
    except np.linalg.LinAlgError:
        # exactly singular normal equations (rank above what the data supports): no value is reported at all, and the
        # statement is about reported values; counted, not judged
        ctx.skip("%s: singular block problem (LinAlgError) - no error value reported" % case["gen"])


# prefix runs are a valid recorder only when run k is a prefix of run K:
#  - nn_tucker_hals passes the outer n_iter_max to its inner FISTA/active-set core solver (so sweeps depend on the budget)
#  - cmtf has no random_state: its SVD init draws from the global generator when rank exceeds a mode size (avoided below)
NO_PREFIX = {"nn_tucker_hals"}
# algorithms whose reported relative error is invariant to the unit of the data on the reference tree (see DESIGN 6.3 for the others)
UNIT_FREE = {"parafac", "tucker", "parafac2", "tr_als", "cmtf", "nn_parafac", "nn_parafac_hals", "nn_tucker", "nn_tucker_hals", "randomised_parafac"}   # constrained CP has absolute penalty parameters: not unit-free by design


def _run_case(case, ctx):
    algo = case["gen"]
    rs = gen.rng(case["seed"], case["idx"], algo)
    dt = "float64"
    eps = tol.eps_of(dt)
    data = decomp.make_data(rs, algo, dt)
    # data recorded in very small or very large units: a relative error must not depend on them (no absolute threshold may enter)
    unit = float(gen.choice(rs, [1.0] * 6 + [1e-18, 1e12])) if data["cls"].split("*")[0] != "integer" and algo in UNIT_FREE else 1.0
    if unit != 1.0:
        data = dict(data, cls=data["cls"] + "*unit%g" % unit)
        if data["kind"] == "tensor":
            data["X"] = data["X"] * unit
        elif data["kind"] == "slices":
            data["slices"] = [s_ * unit for s_ in data["slices"]]
        else:
            data["X"], data["M"] = data["X"] * unit, data["M"] * unit
    if algo == "tucker" and data["kind"] == "tensor" and case["idx"] % 6 == 5:
        # Tucker with some factors supplied and kept fixed: still "the last reported value is the error of the returned decomposition"
        from tensorly import decomposition as D
        X = data["X"]
        order = X.ndim
        rk = [int(rs.randint(1, s_ + 1)) for s_ in X.shape]
        fs0 = [gen.orth(rs, s_, r_, dt) for s_, r_ in zip(X.shape, rk)]
        core0 = gen.arr(rs, rk, dt)
        nfix = int(rs.randint(1, order))
        fixed = sorted(rs.choice(order, size=nfix, replace=False).tolist())
        k = int(rs.randint(1, 6))
        desc = {"algo": algo, "data": data["cls"], "shape": list(X.shape), "rank": rk, "fixed_factors": fixed, "n_iter_max": k}
        ctx.count("checked/%s" % algo)
        ctx.count("values/fixed-factors")
        out, errs = D.tucker(X, rk, init=(core0.copy(), [f.copy() for f in fs0]), fixed_factors=list(fixed), n_iter_max=k, tol=0, return_errors=True)
        if errs:
            te, sc = decomp.true_error("tucker", data, decomp.snapshot(out))
            ctx.nontriv(desc)
            if not np.isfinite(float(errs[-1])) or abs(float(errs[-1]) ** 2 - te ** 2) > 1e5 * eps * max(sc, 1.0):
                ctx.violation("C06:tucker:last-error:fixed-factors", "tucker(fixed_factors=%s), n_iter_max=%d: last reported error %.9g but the returned decomposition has true error %.9g" % (
                    fixed, k, float(errs[-1]), te), desc)
        return
    if algo == "tucker" and data["kind"] == "tensor" and case["idx"] % 6 == 4:
        # HOOI with missing values: each sweep fits the data completed from the previous iterate; the value it reports is the relative
        # error of the new iterate on that completed tensor (prefix runs give the iterates, the zero-budget run the starting model)
        from tensorly import decomposition as D
        X = ref.hp(data["X"])
        rk = [int(rs.randint(1, s_ + 1)) for s_ in X.shape]
        mask = (rs.uniform(size=X.shape) < 0.8).astype(float)
        filler = float(gen.choice(rs, [0.0, 0.0, 3.0])) * float(np.max(np.abs(X)))
        Xin = X * mask + filler * (1 - mask)
        init_ = gen.choice(rs, ["svd", "random"])
        Kmax = int(rs.randint(2, 6))
        desc = {"algo": algo, "data": data["cls"] + "+mask", "shape": list(X.shape), "rank": rk, "init": init_, "filler": filler, "sweeps": Kmax}
        ctx.count("checked/%s" % algo)
        models, errs_k = {}, {}
        for k in range(0, Kmax + 1):
            out, errs = D.tucker(Xin.copy(), rk, n_iter_max=k, mask=mask.copy(), init=init_, tol=0, random_state=seed_of(case), return_errors=True)
            models[k] = ref.tucker_dense(*decomp.snapshot(out))[0]
            errs_k[k] = [float(e) for e in errs]
        ctx.nontriv(desc)
        for k in range(1, Kmax + 1):
            if len(errs_k[k]) != k or any(abs(a - b) > 1e-9 * (1 + abs(b)) for a, b in zip(errs_k[k][:-1], errs_k[k - 1])):
                ctx.violation("C06:tucker:prefix:mask", "masked tucker: the error list of the %d-sweep run %r does not extend the one of the %d-sweep run %r" % (k, errs_k[k], k - 1, errs_k[k - 1]), desc)
                return
            Tk = X * mask + models[k - 1] * (1 - mask)
            want_sq = ref.frob_sq(Tk - models[k]) / ref.frob_sq(Tk)
            ctx.count("values/masked-tucker")
            rep = errs_k[k][-1]
            if not np.isfinite(rep) or abs(rep ** 2 - want_sq) > 1e6 * eps * max(1.0, want_sq):
                ctx.violation("C06:tucker:masked-error:any", "masked tucker, sweep %d: reported %.9g but the iterate has error %.9g on the data completed from the previous iterate" % (
                    k, rep, float(np.sqrt(want_sq))), desc)
                return
        return
    rank = decomp.pick_rank(rs, algo, data)
    if algo == "cmtf":
        rank = min(rank, min(data["shape"][0]), data["shape"][1][1])
    order = len(data["shape"]) if data["kind"] == "tensor" else 3
    which, opts = decomp.option_sets(rs, algo, order)
    seed = int(rs.randint(0, 2 ** 31 - 1))
    K = 10 if "linesearch" in which else 6
    user_init = None
    if algo in ("nn_parafac_hals", "parafac", "nn_parafac") and data["kind"] == "tensor" and rs.rand() < 0.3:
        # warm start with some modes fixed (HALS may also fix the last mode), optionally with normalisation
        shp_ = data["shape"]
        nfix = int(rs.randint(1, len(shp_)))
        fm = sorted(rs.choice(len(shp_) if algo == "nn_parafac_hals" else len(shp_) - 1, size=min(nfix, len(shp_) - 1), replace=False).tolist())
        opts = dict(opts, fixed_modes=fm)
        opts.pop("init", None)
        pos = algo != "parafac"
        user_init = (None, [(np.abs(rs.standard_normal((s_, rank))) + 0.1 if pos else rs.standard_normal((s_, rank))) for s_ in shp_])
        which = which + "+fixed" + ("-last" if (len(shp_) - 1) in fm else "")
    if data["kind"] == "tensor" and user_init is None and ((algo == "tucker") or (algo == "parafac" and which in ("plain", "normalize"))) and rs.rand() < 0.12:
        # complex data: the shortcut ||X||^2 - ||core||^2 (Tucker) and the Gram-based CP error rely on conjugate transposes everywhere
        Xc_ = data["X"].astype(np.complex128)
        Xc_ = Xc_ + 1j * rs.standard_normal(Xc_.shape) * (float(np.max(np.abs(Xc_))) or 1.0)
        data = dict(data, X=Xc_, cls=data["cls"] + "+complex")
        which = which + "+complex"
        ctx.count("complex_data")
    elif algo in ("parafac", "tucker") and data["kind"] == "tensor" and unit == 1.0 and user_init is None and opts.get("init", "svd") == "svd" and not opts.get("sparsity") and rs.rand() < 0.12:
        # counts / pixel values stored in a narrow integer dtype: the reported error is still the error relative to the norm of the data
        idt = gen.choice(rs, ["uint8", "int16", "uint16"])
        Xi = np.abs(data["X"])
        Xi = np.rint(Xi / (float(np.max(Xi)) or 1.0) * float(gen.choice(rs, [50, 200, 250]))).astype(idt)
        if np.any(Xi):
            data = dict(data, X=Xi, cls=data["cls"] + "+" + idt)
            which = which + "+int-dtype"
            ctx.count("narrow_integer_data")
    desc = {"algo": algo, "data": data["cls"], "shape": data["shape"], "rank": rank, "options": which, "opts": {k: (sorted(v) if isinstance(v, set) else v) for k, v in opts.items()}}
    ctx.count("checked/%s" % algo)
    ctx.sample({"case": desc, "K": K}, 6)
    sq = algo == "cmtf"

    def key(clause):
        return "C06:%s:%s:%s" % (algo, clause, which)

    tiny = 1e-100
    runs = {}
    for k in list(range(1, K + 1)):
        r = decomp.run(algo, data, rank, k, dict(opts), seed, tol=tiny, init=None if user_init is None else (None, [f.copy() for f in user_init[1]]))
        runs[k] = (decomp.snapshot(r["decomp"]), r["errors"])
    if algo == "tucker" and which.endswith("+complex"):
        # complex HOOI with the einsum tensor algebra selected: one more run, judged like the others
        from tensorly import tenalg as _ta
        prev_ = _ta.get_backend()
        _ta.set_backend("einsum")
        try:
            r = decomp.run(algo, data, rank, K + 1, dict(opts, _plain_tenalg=True), seed, tol=tiny)
        finally:
            _ta.set_backend(prev_)
        ctx.count("complex_hooi_under_einsum_tenalg")
        runs[K + 1] = (decomp.snapshot(r["decomp"]), r["errors"])
    nonzero = False
    # (1) last reported value of run k == true error of the decomposition returned by run k
    for k, (dec, errs) in runs.items():
        if errs is None:
            continue
        if any(not np.isfinite(float(e)) for e in errs):
            ctx.violation(key("finite"), "%s reported a non-finite error value %r after %d sweeps" % (algo, [float(e) for e in errs], k), desc)
            return
        if not errs:
            ctx.count("values/empty-error-list")
            continue
        te, sc = decomp.true_error(algo, data, dec)
        ctx.count("values/last-error")
        nonzero = nonzero or te > 1e-6
        if not sq_ok(errs[-1], te, sc, eps, sq):
            ctx.violation(key("last-error"), "%s, n_iter_max=%d: last reported error %.12g but the returned decomposition has true error %.12g (list length %d)" % (
                algo, k, float(errs[-1]), te, len(errs)), {"desc": desc, "k": k, "errors": [float(e) for e in errs]})
            return
    # (2) prefix consistency (also proves that errors_K[j] belongs to iterate j+1)
    errsK = runs[K][1]
    if errsK is not None and algo not in NO_PREFIX:
        for k in range(1, K):
            ek = runs[k][1]
            for j, v in enumerate(ek):
                ctx.count("values/prefix")
                if j >= len(errsK) or not (abs(float(v) - float(errsK[j])) <= 1e-9 * (1 + abs(float(v)))):
                    ctx.violation(key("prefix"), "%s: run with n_iter_max=%d reports errors %r, not a prefix of the n_iter_max=%d run %r" % (
                        algo, k, [float(e) for e in ek], K, [float(e) for e in errsK]), desc)
                    return
        # every sweep of the long run reports exactly one value (so values can be attributed to sweeps)
        if len(errsK) != K and all(len(runs[k][1]) == len(errsK) for k in range(len(errsK), K + 1) if runs[k][1] is not None) is False:
            pass
        if len(errsK) < K:
            # legitimately shorter only if the run really stopped early (returned decomposition stopped changing)
            same = _same_decomp(runs[K][0], runs[max(len(errsK), 1)][0])
            ctx.count("values/short-list")
            if not same:
                ctx.violation(key("one-value-per-sweep"), "%s: %d sweeps produced only %d error values (and the run did not stop early)" % (algo, K, len(errsK)),
                              {"desc": desc, "errors": [float(e) for e in errsK]})
                return
    if nonzero or "lowrank" in data["cls"]:
        ctx.nontriv(desc)
    # (3) tolerance-stopped run
    r = decomp.run(algo, data, rank, 40, dict(opts), seed, tol=1e-3, init=None if user_init is None else (None, [f.copy() for f in user_init[1]]))
    if r["errors"]:
        ctx.count("values/tol-stopped")
        te, sc = decomp.true_error(algo, data, decomp.snapshot(r["decomp"]))
        if not all(np.isfinite(float(e)) for e in r["errors"]):
            ctx.violation(key("finite"), "%s (tol=1e-3) reported a non-finite error value" % algo, desc)
            return
        if not sq_ok(r["errors"][-1], te, sc, eps, sq):
            ctx.violation(key("last-error-tol-stopped"), "%s stopped by tol after %d values: last reported %.12g, true error of the returned decomposition %.12g" % (
                algo, len(r["errors"]), float(r["errors"][-1]), te), {"desc": desc, "errors": [float(e) for e in r["errors"]]})
            return
        # (3a) the iteration cap set to exactly the sweep at which the tolerance fired (and one below): convergence at the very last
        # allowed iteration must report and return the same things
        L = len(r["errors"])
        if 1 <= L < 40 and algo not in NO_PREFIX:
            for cap in sorted({L, max(L - 1, 1)}):
                r2 = decomp.run(algo, data, rank, cap, dict(opts), seed, tol=1e-3, init=None if user_init is None else (None, [f.copy() for f in user_init[1]]))
                ctx.count("values/cap-at-convergence")
                e2 = r2["errors"] or []
                if len(e2) != cap or any(abs(float(a) - float(b)) > 1e-9 * (1 + abs(float(a))) for a, b in zip(e2, r["errors"])):
                    ctx.violation(key("cap-at-convergence"), "%s: tolerance-stopped run reports %d values %r; the same run capped at %d sweeps reports %r" % (
                        algo, L, [float(e) for e in r["errors"]][-4:], cap, [float(e) for e in e2][-4:]), desc)
                    return
                te2, sc2 = decomp.true_error(algo, data, decomp.snapshot(r2["decomp"]))
                if e2 and not sq_ok(e2[-1], te2, sc2, eps, sq):
                    ctx.violation(key("last-error-cap-at-convergence"), "%s capped at %d sweeps (where its tolerance also fires): last reported %.12g, true error %.12g" % (
                        algo, cap, float(e2[-1]), te2), desc)
                    return
                if cap == L and not _same_decomp(decomp.snapshot(r2["decomp"]), decomp.snapshot(r["decomp"])):
                    ctx.violation(key("cap-at-convergence"), "%s: the run capped at the sweep where the tolerance fires returns a different decomposition than the tolerance-stopped run" % algo, desc)
                    return
    # (3b) long line-search runs: rejected extrapolations typically appear after tens of sweeps
    if "linesearch" in which and user_init is None:
        for tolv, budget in ((1e-7, 90), (tiny, int(gen.choice(rs, [23, 37, 52, 71])))):
            r = decomp.run(algo, data, rank, budget, dict(opts), seed, tol=tolv)
            if r["errors"]:
                ctx.count("values/long-linesearch")
                te, sc = decomp.true_error(algo, data, decomp.snapshot(r["decomp"]))
                if not all(np.isfinite(float(e)) for e in r["errors"]) or not sq_ok(r["errors"][-1], te, sc, eps, sq):
                    ctx.violation(key("last-error-long-run"), "%s after %d reported values (budget %d, tol %g): last reported %.12g, true error of the returned decomposition %.12g" % (
                        algo, len(r["errors"]), budget, tolv, float(r["errors"][-1]), te), {"desc": desc, "errors_tail": [float(e) for e in r["errors"][-6:]]})
                    return
    # (3c) CP-ALS with missing entries (plain and sparse-plus-low-rank): the documented value is the misfit of the current iterate on
    # the tensor whose missing cells are imputed from that same iterate, relative to the norm of that imputed tensor
    if algo == "parafac" and user_init is None and data["kind"] == "tensor" and case["idx"] % 2 == 0 and not opts.get("l2_reg"):
        from tensorly import decomposition as D
        X = data["X"]
        mask = (rs.uniform(size=X.shape) < 0.8).astype(float)
        filler = float(gen.choice(rs, [0.0, 3.0])) * float(np.max(np.abs(X)))
        Xin = X * mask + filler * (1 - mask)
        mopts = {k_: v_ for k_, v_ in opts.items() if k_ in ("init", "sparsity", "normalize_factors", "cvg_criterion", "linesearch")}
        recs = []

        def mcb(dec, error=None):
            # deep copies: the library keeps updating the arrays it hands out
            # (a fractional sparsity that rounds to zero entries on a small tensor makes the library drop the sparse part altogether:
            # the form of what is handed out is read off the object, not off the option)
            if _with_sparse(dec):
                snap_ = ("+sparse", decomp.snapshot(dec[0]), np.array(dec[1], copy=True))
            else:
                snap_ = ("plain", decomp.snapshot(dec), 0.0)
            recs.append((snap_, None if error is None else float(error)))
        for k in ((1, 2, 4) if not mopts.get("linesearch") else (2, 8, 11)):     # accepted line-search jumps start at sweep 7
            del recs[:]
            out, errs = D.parafac(Xin.copy(), rank, n_iter_max=k, mask=mask.copy(), random_state=seed, tol=tiny, return_errors=True, callback=mcb, **mopts)
            out_ = ("+sparse", decomp.snapshot(out[0]), np.asarray(out[1])) if _with_sparse(out) else ("plain", decomp.snapshot(out), 0.0)
            pairs = [(out_, float(errs[-1]), "last of %d" % k)] if errs else []
            pairs += [(d_, e_, "callback #%d of the %d-sweep run" % (j_, k)) for j_, (d_, e_) in enumerate(recs) if e_ is not None]
            for dec_, rep_, where in pairs:
                form_, (w_, f_), S_ = dec_
                if form_ == "+sparse":
                    S_ = ref.hp(np.asarray(S_))
                M_, Mabs_, _ = ref.cp_dense(w_, f_)
                imp = ref.hp(X) * mask + M_ * (1 - mask)
                ctx.count("values/masked")
                want_sq = ref.frob_sq(imp - M_ - S_) / ref.frob_sq(imp)
                scale_sq = ref.frob_sq(np.abs(ref.hp(X)) * mask + Mabs_ + np.abs(S_)) / ref.frob_sq(imp)
                if not np.isfinite(rep_) or abs(rep_ ** 2 - want_sq) > 5e4 * eps * scale_sq:
                    ctx.violation(key("masked-error"), "masked parafac (%s): reported %.12g but the iterate has error %.12g on the tensor imputed from it" % (where, rep_, float(np.sqrt(want_sq))), desc)
                    return
                if form_ == "+sparse" and np.any(S_[mask == 0] != 0):
                    ctx.violation(key("masked-sparse-component"), "masked sparse-plus-low-rank parafac (%s): the sparse component has non-zero entries in missing cells, where the imputed "
                                  "residual is exactly zero" % where, desc)
                    return
    # (4) callbacks
    if algo in ("parafac", "randomised_parafac", "tr_als") and user_init is None:
        rec = []

        def cb(dec, error=None):
            rec.append((decomp.snapshot(dec), None if error is None else float(error)))
        stop_off = algo == "randomised_parafac" and case["idx"] % 2 == 1
        if stop_off:
            # both stopping rules switched off (tol=0, max_stagnation=0): the callback is the only consumer of the error
            decomp.run(algo, data, rank, K, dict(opts, max_stagnation=0), seed, tol=0, callback=cb)
        else:
            decomp.run(algo, data, rank, K, dict(opts), seed, tol=tiny, callback=cb)
        for j, (dec, e) in enumerate(rec):
            if e is None:
                ctx.count("values/callback-without-error")
                continue
            ctx.count("values/callback")
            te, sc = decomp.true_error(algo, data, dec)
            if not sq_ok(e, te, sc, eps):
                ctx.violation(key("callback-error"), "%s: callback #%d received error %.12g but the iterate it was handed has true error %.12g" % (algo, j, e, te),
                              {"desc": desc, "callback_errors": [x[1] for x in rec]})
                return


def _same_decomp(a, b):
    fa, fb = _flat(a), _flat(b)
    return len(fa) == len(fb) and all(x.shape == y.shape and np.allclose(x, y, rtol=1e-10, atol=1e-12) for x, y in zip(fa, fb))


def _flat(o):
    if isinstance(o, np.ndarray):
        return [o]
    if isinstance(o, (list, tuple)):
        out = []
        for x in o:
            out.extend(_flat(x))
        return out
    return []
