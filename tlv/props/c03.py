"""C03 — factorised tensors reconstruct to their defining contraction; all views agree; invalid sets rejected.

For each generated CP / Tucker / TT / TR / TT-matrix / PARAFAC2 structure (tuple and wrapper form, both
tenalg backends) the real conversion functions are called and compared with explicit einsum contractions
of the stored factors; unfolded / vec / matrix / slice views are compared with index-map rearrangements of
the reference dense tensor; wrapper .shape/.rank with the actual sizes; factor-based norm with the dense norm
(on squares). Invalid factor sets must be rejected.
"""
from math import prod

import numpy as np

from ..core import gen, ref, tol

ID = "C03"
RULE = ("seeded random factor sets per format over enumerated classes (rank 1, size-1 modes, weights None/ones/"
        "generic/negative, tuple vs wrapper, every unfolding mode, both tenalg backends, float32/64/complex128); "
        "non-trivial = rank > 1 or more than one mode of size > 1; distinct = distinct (format, shapes, ranks, options)")
ASSUMPTIONS = ["numpy.einsum with explicit subscripts is the trusted reference", "NumPy backend only",
               "complex CP uses real weights (cp_norm's weight handling is only defined for real weights)"]
FORMATS = ["cp", "tucker", "tt", "tr", "ttm", "parafac2", "invalid"]
DTYPES = ["float64", "float64", "float32", "complex128"]


def plan(tier, seed):
    n = 21000 if tier == "quick" else 252000
    return [{"gen": FORMATS[i % len(FORMATS)], "idx": i, "seed": seed} for i in range(n)]


def floors(tier):
    f = {"checked/%s" % k: 200 for k in ("cp", "tucker", "tt", "tr", "ttm", "parafac2")}
    f["invalid_rejected"] = 300
    f["clause/norm"] = 100
    f["clause/unfolded"] = 1000
    return f


def bounds(tier):
    return {"orders": "CP 1-5, Tucker 2-4, TT/TR 2-5, TT-matrix 1-3 core pairs, PARAFAC2 2-4 slices", "mode_sizes": "1-4", "ranks": "1-4"}


def _norm_clause(ctx, fmt, be, desc, obj, dense_ref, absb, nterms, eps):
    """the norm a wrapper object reports (whatever shortcut it takes) is the norm of the tensor it represents; on squares"""
    if not hasattr(obj, "norm"):
        return
    cls = desc.get("cls", "generic")
    nrm = obj.norm()
    ctx.count("clause/norm")
    nrm_sq = float(np.abs(nrm)) ** 2
    want = ref.frob_sq(dense_ref)
    scale = float(np.sum(np.asarray(absb, dtype=np.longdouble) ** 2))
    if not np.isfinite(nrm_sq) or abs(nrm_sq - want) > 64 * (nterms + dense_ref.ndim + 8) * eps * scale:
        ctx.violation("C03:%s:norm:%s" % (fmt, cls), "%s (%s backend): .norm()^2 = %r but ||dense||^2 = %r (scale %r)" % (fmt, be, nrm_sq, want, scale), {"desc": desc, "backend": be})


def _views(ctx, fmt, be, desc, dense_ref, absb, nterms, eps, to_tensor, to_unfolded, to_vec, key_extra=""):
    """compare dense, every unfolding and vec with the reference"""
    cls = desc.get("cls", "generic")

    def bad(clause, what, got=None):
        ctx.violation("C03:%s:%s:%s%s" % (fmt, clause, cls, key_extra), "%s (%s backend): %s" % (fmt, be, what),
                      {"desc": desc, "backend": be, "got": got, "ref": dense_ref})

    out = to_tensor()
    ctx.count("clause/dense")
    ok, worst = tol.formula_close(out, dense_ref, absb, eps, nterms)
    if not ok:
        bad("dense", "to_tensor differs from the defining contraction (err/bound %.3g, got shape %s, ref shape %s)" % (worst, np.shape(out), dense_ref.shape), out)
        return False
    if to_vec is not None:
        v = to_vec()
        ctx.count("clause/vec")
        ok, worst = tol.formula_close(v, dense_ref.ravel(), absb.ravel(), eps, nterms)
        if not ok:
            bad("vec", "to_vec differs from the row-major vectorisation of the dense tensor (err/bound %.3g)" % worst, v)
    if to_unfolded is not None:
        for mode in range(dense_ref.ndim):
            u = to_unfolded(mode)
            ctx.count("clause/unfolded")
            ok, worst = tol.formula_close(u, ref.unfold(dense_ref, mode), ref.unfold(absb, mode), eps, nterms)
            if not ok:
                bad("unfolded", "mode-%d unfolding differs from the unfolding of the dense tensor (err/bound %.3g)" % (mode, worst), u)
        # the same modes counted from the end (as unfold itself accepts them): one of them per call, in rotation
        nd_ = dense_ref.ndim
        if nd_ >= 2:
            _NEG_TURN[0] += 1
            mneg = -1 - (_NEG_TURN[0] % nd_)
            ctx.count("clause/unfolded-negative-mode")
            try:
                u = to_unfolded(mneg)
            except (ValueError, IndexError, TypeError) as e:
                ctx.violation("C03:%s:unfolded-negative-mode-raises-%s:%s%s" % (fmt, type(e).__name__, cls, key_extra), "%s (%s backend): unfolding along mode %d raised %s: %s" % (
                    fmt, be, mneg, type(e).__name__, str(e)[:120]), {"desc": desc, "backend": be})
                return True
            want_u, want_a = ref.unfold(dense_ref, mneg % nd_), ref.unfold(absb, mneg % nd_)
            if np.shape(u) != want_u.shape:
                ctx.violation("C03:%s:unfolded-negative-mode:%s%s" % (fmt, cls, key_extra), "%s (%s backend): unfolding along mode %d has shape %s, the mode-%d unfolding of the dense tensor %s" % (
                    fmt, be, mneg, np.shape(u), mneg % nd_, want_u.shape), {"desc": desc, "backend": be})
                return True
            ok, worst = tol.formula_close(u, want_u, want_a, eps, nterms)
            if not ok:
                ctx.violation("C03:%s:unfolded-negative-mode:%s%s" % (fmt, cls, key_extra), "%s (%s backend): unfolding along mode %d differs from the mode-%d unfolding of the dense tensor (err/bound %.3g)" % (
                    fmt, be, mneg, mneg % nd_, worst), {"desc": desc, "backend": be})
    return True


_NEG_TURN = [0]


def run_case(case, ctx):
    import tensorly as tl
    from tensorly import tenalg
    from tensorly.cp_tensor import CPTensor, cp_to_tensor, cp_to_unfolded, cp_to_vec, cp_norm
    from tensorly.tucker_tensor import TuckerTensor, tucker_to_tensor, tucker_to_unfolded, tucker_to_vec
    from tensorly.tt_tensor import TTTensor, tt_to_tensor, tt_to_unfolded, tt_to_vec
    from tensorly.tr_tensor import TRTensor, tr_to_tensor, tr_to_unfolded, tr_to_vec
    from tensorly.tt_matrix import TTMatrix, tt_matrix_to_tensor, tt_matrix_to_matrix, tt_matrix_to_unfolded, tt_matrix_to_vec
    from tensorly import parafac2_tensor as p2

    fmt = case["gen"]
    rs = gen.rng(case["seed"], case["idx"], fmt)
    dt = gen.choice(rs, DTYPES)
    kind = gen.choice(rs, ["gauss", "gauss", "int", "scaled"])
    eps = tol.eps_of(dt)
    rdt = "float32" if dt == "float32" else "float64"

    def A(shape, dtype=None, k=None):
        return gen.arr(rs, shape, dtype or dt, k or kind)

    prev = tenalg.get_backend()
    try:
        if fmt == "invalid":
            _invalid(ctx, rs, A, tl, tenalg)
            return
        for be in ("core", "einsum"):
            tenalg.set_backend(be)
            _valid(ctx, fmt, be, rs if be == "core" else None, A, dt, rdt, kind, eps, case, locals())
    finally:
        tenalg.set_backend(prev)


_STATE = {}


def _valid(ctx, fmt, be, rs, A, dt, rdt, kind, eps, case, L):
    """build once (under 'core'), check under each backend"""
    if rs is not None:
        _STATE.clear()
        _STATE.update(_build(fmt, rs, A, dt, rdt, kind))
    S = _STATE
    desc = dict(S["desc"], dtype=dt, kind=kind)
    if be == "core":
        if S["nontrivial"]:
            ctx.nontriv(desc)
        ctx.sample({"case": desc}, limit=6)
    ctx.count("checked/%s" % fmt)
    S["check"](ctx, be, desc, eps, L)


def _build(fmt, rs, A, dt, rdt, kind):
    if fmt == "cp":
        order = rs.randint(1, 6)
        shp = gen.shape(rs, order)
        R = int(rs.randint(1, 5))
        factors = [A([s, R]) for s in shp]
        wk = gen.choice(rs, ["none", "ones", "generic", "negative"])
        if order == 1 and wk == "none":
            wk = "ones" if rs.rand() < 0.5 else "none1"
        w = {"none": None, "none1": None, "ones": np.ones(R, dtype=rdt), "generic": gen.arr(rs, [R], rdt, "gauss"),
             "negative": -np.abs(gen.arr(rs, [R], rdt, "gauss")) - 0.1}[wk]
        if w is not None:
            w = w.astype(rdt)
        if w is not None and wk == "generic" and np.dtype(dt).kind == "c" and rs.rand() < 0.5:
            w = (w + 1j * gen.arr(rs, [R], rdt, "gauss")).astype(dt)       # a complex model may carry complex weights
            wk = "complex"
        if np.dtype(dt).kind == "c" and order >= 2 and rs.rand() < 0.3:
            # a complex model some of whose factors happen to be real arrays (a real loading mode): the dtype of one factor says
            # nothing about the others
            real_at = [0] if rs.rand() < 0.6 else rs.choice(order, size=int(rs.randint(1, order)), replace=False).tolist()
            factors = [gen.arr(rs, [s_, R], rdt) if i_ in real_at else f_ for i_, (s_, f_) in enumerate(zip(shp, factors))]
        wrapper = rs.rand() < 0.5
        mask = (rs.uniform(size=shp) < 0.6).astype(rdt) if rs.rand() < 0.3 else None     # any order, order 1 included
        if mask is not None and rs.rand() < 0.4:
            # observation weights rather than 0/1: "applied entrywise" is a plain product, whatever the values
            mask = (mask * rs.uniform(-1, 2, size=shp)).astype(rdt)
        cls = ("order1" if order == 1 else "orderN") + ("+noweights" if w is None else "")
        desc = {"fmt": "cp", "shape": shp, "rank": R, "weights": wk, "wrapper": bool(wrapper), "mask": mask is not None, "cls": cls}
        dense, absb, nt = ref.cp_dense(w, factors)

        def check(ctx, be, desc, eps, L):
            obj = L["CPTensor"]((w, list(factors))) if wrapper else (w, list(factors))
            if wrapper:
                ctx.count("clause/wrapper")
                if tuple(obj.shape) != tuple(shp) or obj.rank != R:
                    ctx.violation("C03:cp:wrapper-shape-rank:%s" % cls, "CPTensor reports shape %s rank %s, actual %s %s" % (obj.shape, obj.rank, shp, R), desc)
                fns = (obj.to_tensor, obj.to_unfolded, obj.to_vec)
            else:
                fns = (lambda: L["cp_to_tensor"](obj), lambda m: L["cp_to_unfolded"](obj, m), lambda: L["cp_to_vec"](obj))
            ok = _views(ctx, "cp", be, desc, dense, absb, nt, eps, *fns)
            if mask is not None:
                mv, ma, _ = ref.cp_dense(w, factors, mask)
                out = L["cp_to_tensor"](obj, mask=mask)
                ctx.count("clause/mask")
                okm, worst = tol.formula_close(out, mv, ma, eps, nt)
                if not okm:
                    ctx.violation("C03:cp:masked-dense:%s" % cls, "cp_to_tensor(mask=) is not the entrywise-masked tensor (err/bound %.3g)" % worst, {"desc": desc, "backend": be})
            if wrapper and be == "core" and order >= 2:
                # history: the object is grown in place (greedy rank-one updates, a mode re-sampled): factors, then weights, replaced by
                # item assignment. Everything it reports and every view follows what it holds now.
                r2 = R + 1
                shp2 = list(shp)
                shp2[0] = shp[0] + 1
                rs2 = np.random.RandomState(sum(shp) * 17 + R)
                f2 = [gen.arr(rs2, [s_, r2], dt) for s_ in shp2]
                w2 = gen.arr(rs2, [r2], rdt)
                obj2 = L["CPTensor"]((w, list(factors)))
                obj2[1] = list(f2)
                obj2[0] = w2
                d2, a2, n2 = ref.cp_dense(w2, f2)
                ctx.count("clause/parts-replaced")
                if tuple(obj2.shape) != tuple(shp2) or obj2.rank != r2:
                    ctx.violation("C03:cp:wrapper-shape-rank:parts-replaced", "CPTensor after its factors and weights were replaced by item assignment (shape %s rank %d -> %s, %d) reports shape %s rank %s" % (
                        shp, R, shp2, r2, tuple(obj2.shape), obj2.rank), dict(desc, cls="parts-replaced"))
                else:
                    try:
                        _views(ctx, "cp", be, dict(desc, cls="parts-replaced"), d2, a2, n2, eps, obj2.to_tensor, obj2.to_unfolded, obj2.to_vec)
                    except (ValueError, IndexError) as e:
                        ctx.violation("C03:cp:raises-%s:parts-replaced" % type(e).__name__, "CPTensor with replaced factors and weights: a view raised %s: %s" % (type(e).__name__, str(e)[:150]), dict(desc, cls="parts-replaced"))
            # norm from the factors vs norm of the dense reconstruction, compared on squares
            nrm = obj.norm() if wrapper else L["cp_norm"](obj)
            ctx.count("clause/norm")
            G = np.ones((R, R))
            for f in factors:
                G = G * (np.abs(ref.hp(f)).T @ np.abs(ref.hp(f)))
            wa = np.ones(R) if w is None else np.abs(ref.hp(w))
            scale = float(wa @ G @ wa)
            nrm_sq = float(np.abs(nrm)) ** 2
            if not np.isfinite(nrm_sq) or abs(nrm_sq - ref.frob_sq(dense)) > 64 * (R * R + sum(shp) + 8) * eps * scale:
                ctx.violation("C03:cp:norm:%s" % cls, "cp_norm^2=%r but ||dense||^2=%r (scale %r)" % (nrm_sq, ref.frob_sq(dense), scale), {"desc": desc, "backend": be})
        return {"desc": desc, "check": check, "nontrivial": R > 1 or sum(s > 1 for s in shp) > 1}

    if fmt == "tucker":
        order = rs.randint(2, 5)
        shp = gen.shape(rs, order)
        rk = gen.shape(rs, order)
        core = A(rk)
        factors = [A([s, r]) for s, r in zip(shp, rk)]
        # factor structure a shortcut might key on: unit-norm but non-orthogonal columns (the state after .normalize()), or orthonormal
        fcls = gen.choice(rs, ["generic", "generic", "unit-columns", "orthonormal"])
        if fcls == "unit-columns":
            factors = [(f / np.where(np.linalg.norm(f, axis=0) > 0, np.linalg.norm(f, axis=0), 1)).astype(f.dtype) for f in factors]
        elif fcls == "orthonormal":
            rk = [min(r, s) for r, s in zip(rk, shp)]
            core = A(rk)
            factors = [np.linalg.qr(ref.hp(A([s, r])).astype(np.complex128 if np.dtype(dt).kind == "c" else np.float64))[0].astype(dt) for s, r in zip(shp, rk)]
        wrapper = rs.rand() < 0.5
        skip = int(rs.randint(order)) if rs.rand() < 0.3 else None
        desc = {"fmt": "tucker", "shape": shp, "rank": rk, "wrapper": bool(wrapper), "skip_factor": skip, "cls": fcls}
        dense, absb, nt = ref.tucker_dense(core, factors)

        def check(ctx, be, desc, eps, L):
            obj = L["TuckerTensor"]((core, list(factors))) if wrapper else (core, list(factors))
            if wrapper:
                ctx.count("clause/wrapper")
                if tuple(obj.shape) != tuple(shp) or tuple(obj.rank) != tuple(rk):
                    ctx.violation("C03:tucker:wrapper-shape-rank:%s" % fcls, "TuckerTensor reports shape %s rank %s, actual %s %s" % (obj.shape, obj.rank, shp, rk), desc)
                fns = (obj.to_tensor, obj.to_unfolded, obj.to_vec)
            else:
                fns = (lambda: L["tucker_to_tensor"](obj), lambda m: L["tucker_to_unfolded"](obj, m), lambda: L["tucker_to_vec"](obj))
            _views(ctx, "tucker", be, desc, dense, absb, nt, eps, *fns)
            _norm_clause(ctx, "tucker", be, desc, obj, dense, absb, nt, eps)
            if wrapper and be == "core":
                # history: factors, then core, replaced by item assignment (a mode re-sampled, a rank grown)
                rs2 = np.random.RandomState(sum(shp) * 13 + sum(rk))
                shp2, rk2 = list(shp), list(rk)
                shp2[0], rk2[-1] = shp[0] + 1, rk[-1] + 1
                f2 = [gen.arr(rs2, [s_, r_], dt) for s_, r_ in zip(shp2, rk2)]
                c2 = gen.arr(rs2, rk2, dt)
                obj2 = L["TuckerTensor"]((core, list(factors)))
                obj2[1] = list(f2)
                obj2[0] = c2
                d2, a2, n2 = ref.tucker_dense(c2, f2)
                ctx.count("clause/parts-replaced")
                if tuple(obj2.shape) != tuple(shp2) or tuple(obj2.rank) != tuple(rk2):
                    ctx.violation("C03:tucker:wrapper-shape-rank:parts-replaced", "TuckerTensor after its factors and core were replaced by item assignment (shape %s rank %s -> %s, %s) reports shape %s rank %s" % (
                        shp, rk, shp2, rk2, tuple(obj2.shape), tuple(obj2.rank)), dict(desc, cls="parts-replaced"))
                else:
                    try:
                        _views(ctx, "tucker", be, dict(desc, cls="parts-replaced"), d2, a2, n2, eps, obj2.to_tensor, obj2.to_unfolded, obj2.to_vec)
                    except (ValueError, IndexError) as e:
                        ctx.violation("C03:tucker:raises-%s:parts-replaced" % type(e).__name__, "TuckerTensor with replaced factors and core: a view raised %s: %s" % (type(e).__name__, str(e)[:150]), dict(desc, cls="parts-replaced"))
            if skip is not None:
                keep = [i for i in range(order) if i != skip]
                sv, sa, snt = ref.tucker_dense(core, [factors[i] for i in keep], keep)
                _views(ctx, "tucker", be, dict(desc, cls="skip_factor"), sv, sa, snt, eps,
                       lambda: L["tucker_to_tensor"](obj, skip_factor=skip),
                       lambda m: L["tucker_to_unfolded"](obj, m, skip_factor=skip),
                       lambda: L["tucker_to_vec"](obj, skip_factor=skip))
            # the same tensor written with (conjugate-)transposed factors
            ctx.count("clause/transpose_factors")
            objT = (core, [np.conj(f).T.copy() for f in factors])
            _views(ctx, "tucker", be, dict(desc, cls="transpose_factors"), dense, absb, nt, eps,
                   lambda: L["tucker_to_tensor"](objT, transpose_factors=True),
                   lambda m: L["tucker_to_unfolded"](objT, m, transpose_factors=True),
                   lambda: L["tucker_to_vec"](objT, transpose_factors=True))
            if skip is not None:
                _views(ctx, "tucker", be, dict(desc, cls="skip_factor+transpose_factors"), sv, sa, snt, eps,
                       lambda: L["tucker_to_tensor"](objT, skip_factor=skip, transpose_factors=True),
                       lambda m: L["tucker_to_unfolded"](objT, m, skip_factor=skip, transpose_factors=True),
                       lambda: L["tucker_to_vec"](objT, skip_factor=skip, transpose_factors=True))
        return {"desc": desc, "check": check, "nontrivial": prod(rk) > 1 or sum(s > 1 for s in shp) > 1}

    if fmt in ("tt", "tr"):
        order = rs.randint(2, 6)
        shp = gen.shape(rs, order)
        ranks = [int(rs.randint(1, 5)) for _ in range(order + 1)]
        if fmt == "tt":
            ranks[0] = ranks[-1] = 1
        else:
            ranks[-1] = ranks[0]
        cores = [A([ranks[k], shp[k], ranks[k + 1]]) for k in range(order)]
        wrapper = rs.rand() < 0.5
        desc = {"fmt": fmt, "shape": shp, "rank": ranks, "wrapper": bool(wrapper), "cls": "generic"}
        if fmt == "tt":
            dense, absb, nt = ref.tt_dense(cores)
            dense, absb = dense.reshape(shp), absb.reshape(shp)
        else:
            dense, absb, nt = ref.tr_dense(cores)

        def check(ctx, be, desc, eps, L):
            W = L["TTTensor"] if fmt == "tt" else L["TRTensor"]
            to_t, to_u, to_v = (L["tt_to_tensor"], L["tt_to_unfolded"], L["tt_to_vec"]) if fmt == "tt" else (L["tr_to_tensor"], L["tr_to_unfolded"], L["tr_to_vec"])
            obj = W(list(cores)) if wrapper else list(cores)
            if wrapper:
                ctx.count("clause/wrapper")
                if tuple(obj.shape) != tuple(shp) or tuple(obj.rank) != tuple(ranks):
                    ctx.violation("C03:%s:wrapper-shape-rank:generic" % fmt, "%s reports shape %s rank %s, actual %s %s" % (W.__name__, obj.shape, obj.rank, shp, ranks), desc)
                fns = (obj.to_tensor, obj.to_unfolding, obj.to_vec)
            else:
                fns = (lambda: to_t(obj), lambda m: to_u(obj, m), lambda: to_v(obj))
            _views(ctx, fmt, be, desc, dense, absb, nt, eps, *fns)
            _norm_clause(ctx, fmt, be, desc, obj, dense, absb, nt, eps)
            if wrapper and be == "core":
                # history: one core of the wrapper object is replaced (item assignment) by a core with another mode size, e.g. after a
                # mode product on that core or after slicing it: every view follows the cores the object holds now
                k = int(np.argmax(shp))
                newsize = shp[k] + 1 if shp[k] < 4 else shp[k] - 1
                nc = gen.arr(np.random.RandomState(sum(shp) * 31 + k), [ranks[k], newsize, ranks[k + 1]], dt)
                cores2 = list(cores)
                cores2[k] = nc
                obj2 = W(list(cores))
                obj2[k] = nc
                if fmt == "tt":
                    d2, a2, n2 = ref.tt_dense(cores2)
                    shp2 = list(shp)
                    shp2[k] = newsize
                    d2, a2 = d2.reshape(shp2), a2.reshape(shp2)
                else:
                    d2, a2, n2 = ref.tr_dense(cores2)
                ctx.count("clause/core-replaced")
                ranks2 = list(ranks)
                if tuple(obj2.shape) != tuple(shp[:k] + [newsize] + shp[k + 1:]) or tuple(obj2.rank) != tuple(ranks2):
                    ctx.violation("C03:%s:wrapper-shape-rank:core-replaced" % fmt, "%s wrapper after core %d was replaced (mode size %d -> %d) reports shape %s rank %s" % (
                        fmt, k, shp[k], newsize, tuple(obj2.shape), tuple(obj2.rank)), dict(desc, cls="core-replaced"))
                    return
                try:
                    _views(ctx, fmt, be, dict(desc, cls="core-replaced"), d2, a2, n2, eps, obj2.to_tensor, obj2.to_unfolding, obj2.to_vec)
                except (ValueError, IndexError) as e:
                    ctx.violation("C03:%s:raises-%s:core-replaced" % (fmt, type(e).__name__), "%s wrapper with core %d replaced by one of mode size %d: a view raised %s: %s" % (
                        fmt, k, newsize, type(e).__name__, str(e)[:150]), dict(desc, cls="core-replaced"))
        return {"desc": desc, "check": check, "nontrivial": max(ranks) > 1 or sum(s > 1 for s in shp) > 1}

    if fmt == "ttm":
        n = rs.randint(1, 4)
        left = gen.shape(rs, n, 1, 3)
        right = gen.shape(rs, n, 1, 3)
        ranks = [1] + [int(rs.randint(1, 4)) for _ in range(n - 1)] + [1]
        cores = [A([ranks[k], left[k], right[k], ranks[k + 1]]) for k in range(n)]
        wrapper = rs.rand() < 0.5
        desc = {"fmt": "ttm", "left": left, "right": right, "rank": ranks, "wrapper": bool(wrapper), "cls": "generic"}
        dense, absb, nt = ref.tt_matrix_dense(cores)
        dense, absb = dense.reshape(left + right), absb.reshape(left + right)

        def check(ctx, be, desc, eps, L):
            obj = L["TTMatrix"](list(cores)) if wrapper else list(cores)
            if wrapper:
                ctx.count("clause/wrapper")
                if tuple(obj.shape) != tuple(left + right) or tuple(obj.rank) != tuple(ranks):
                    ctx.violation("C03:ttm:wrapper-shape-rank:generic", "TTMatrix reports shape %s rank %s, actual %s %s" % (obj.shape, obj.rank, left + right, ranks), desc)
                fns = (obj.to_tensor, obj.to_unfolding, obj.to_vec)
                to_m = obj.to_matrix
            else:
                fns = (lambda: L["tt_matrix_to_tensor"](obj), lambda m: L["tt_matrix_to_unfolded"](obj, m), lambda: L["tt_matrix_to_vec"](obj))
                to_m = lambda: L["tt_matrix_to_matrix"](obj)
            _views(ctx, "ttm", be, desc, dense, absb, nt, eps, *fns)
            M = to_m()
            ctx.count("clause/matrix")
            okm, worst = tol.formula_close(M, dense.reshape(prod(left), prod(right)), absb.reshape(prod(left), prod(right)), eps, nt)
            if not okm:
                ctx.violation("C03:ttm:matrix:generic", "tt_matrix_to_matrix differs from the (prod left) x (prod right) reshaping of the dense tensor (err/bound %.3g)" % worst, {"desc": desc, "backend": be})
        return {"desc": desc, "check": check, "nontrivial": n > 1 and (max(ranks) > 1 or prod(left + right) > 1)}

    if fmt == "parafac2":
        I = int(rs.randint(2, 5))
        R = int(rs.randint(1, 4))
        K = int(rs.randint(1, 5))
        J = [int(rs.randint(R, R + 4)) for _ in range(I)]
        if rs.rand() < 0.4:
            J = [J[0]] * I
        A_ = A([I, R])
        B_ = A([R, R])
        C_ = A([K, R])
        mixed = gen.choice(rs, ["uniform", "uniform", "uniform", "int-A", "real-A"])
        if mixed == "int-A":
            # an integer indicator / count matrix as first-mode factor with floating B, C: the dense tensor is floating
            A_ = rs.randint(0, 3, size=(I, R)).astype(np.int64)
        elif mixed == "real-A" and np.dtype(dt).kind == "c":
            A_ = gen.arr(rs, [I, R], rdt, kind)
        else:
            mixed = "uniform"
        P = [gen.orth(rs, j, R, rdt).astype(dt) for j in J]
        wk = gen.choice(rs, ["none", "ones", "generic", "negative"])
        w = {"none": None, "ones": np.ones(R, dtype=rdt), "generic": gen.arr(rs, [R], rdt, "gauss"), "negative": -np.abs(gen.arr(rs, [R], rdt, "gauss")) - 0.1}[wk]
        wrapper = rs.rand() < 0.5
        uneven = len(set(J)) > 1
        desc = {"fmt": "parafac2", "I": I, "J": J, "K": K, "rank": R, "weights": wk, "wrapper": bool(wrapper), "cls": ("uneven" if uneven else "even") + ("" if mixed == "uniform" else "+" + mixed)}
        slices, sabs = [], []
        for i in range(I):
            ops = [P[i], B_, A_[i], C_] + ([w] if w is not None else [])
            v, a = ref.es("jr,rs,s,ks" + (",s" if w is not None else "") + "->jk", *ops)
            slices.append(v)
            sabs.append(a)
        dense = np.zeros((I, max(J), K), dtype=slices[0].dtype)
        absb = np.zeros((I, max(J), K))
        for i in range(I):
            dense[i, :J[i]] = slices[i]
            absb[i, :J[i]] = sabs[i]
        nt = R * R

        def check(ctx, be, desc, eps, L):
            p2 = L["p2"]
            tup = (w, (A_, B_, C_), list(P))
            obj = p2.Parafac2Tensor(tup) if wrapper else tup
            cls = desc["cls"]
            if wrapper:
                ctx.count("clause/wrapper")
                exp_shape = tuple((j, K) for j in J)
                if tuple(tuple(s) for s in obj.shape) != exp_shape or obj.rank != R:
                    ctx.violation("C03:parafac2:wrapper-shape-rank:%s" % cls, "Parafac2Tensor reports shape %s rank %s, actual %s %s" % (obj.shape, obj.rank, exp_shape, R), desc)
                fns = (obj.to_tensor, obj.to_unfolded, obj.to_vec)
            else:
                fns = (lambda: p2.parafac2_to_tensor(obj), lambda m: p2.parafac2_to_unfolded(obj, m), lambda: p2.parafac2_to_vec(obj))
            _views(ctx, "parafac2", be, desc, dense, absb, nt, eps, *fns)
            sl = p2.parafac2_to_slices(obj)
            ctx.count("clause/slices")
            if len(sl) != I:
                ctx.violation("C03:parafac2:slices:%s" % cls, "parafac2_to_slices returned %d slices for %d rows of A" % (len(sl), I), desc)
            for i in range(min(I, len(sl))):
                one = p2.parafac2_to_slice(obj, i)
                # the same views with the structural validation switched off (a valid decomposition does not need it)
                one_nv = p2.parafac2_to_slice(obj, i, validate=False)
                sl_nv = p2.parafac2_to_slices(obj, validate=False)
                for nm, s in (("slices", sl[i]), ("slice", one), ("slice-validate-off", one_nv), ("slices-validate-off", sl_nv[i])):
                    oks, worst = tol.formula_close(s, slices[i], sabs[i], eps, nt)
                    if not oks:
                        ctx.violation("C03:parafac2:%s:%s" % (nm, cls), "slice %d differs from P_i B diag(a_i*w) C^T (err/bound %.3g)" % (i, worst), {"desc": desc, "backend": be, "got": s, "ref": slices[i]})
        return {"desc": desc, "check": check, "nontrivial": R > 1 or K > 1}
    raise ValueError(fmt)


def _invalid(ctx, rs, A, tl, tenalg):
    """structurally invalid factor sets must be rejected (wrapper construction and conversion)"""
    from tensorly.cp_tensor import CPTensor, cp_to_tensor
    from tensorly.tucker_tensor import TuckerTensor, tucker_to_tensor
    from tensorly.tt_tensor import TTTensor, tt_to_tensor
    from tensorly.tr_tensor import TRTensor, tr_to_tensor
    from tensorly.tt_matrix import TTMatrix, tt_matrix_to_tensor
    from tensorly import parafac2_tensor as p2

    which = gen.choice(rs, ["cp-columns", "cp-columns-one", "cp-weights", "cp-weights-one", "cp-weights-2d", "tucker-cols", "tucker-count", "tt-boundary0", "tt-boundaryN", "tt-consecutive",
                            "tr-ring", "tr-consecutive", "ttm-boundary", "ttm-consecutive", "p2-count", "p2-width", "p2-nonorth", "p2-factor-cols"])
    order = int(rs.randint(3, 5))
    shp = gen.shape(rs, order, 2, 4)
    # rank 1 next to rank 2 is the dangerous mismatch: einsum-style contractions broadcast a size-1 axis instead of failing
    R = int(rs.randint(1, 4))
    if which.startswith("p2-") or which == "cp-weights-2d":
        R = max(R, 2)
    be = gen.choice(rs, ["core", "einsum"])
    tenalg.set_backend(be)
    attempts = []
    if which == "cp-columns":
        f = [A([s, R]) for s in shp]
        k = int(rs.randint(1, order))
        f[k] = A([shp[k], R + 1])
        attempts = [("CPTensor", lambda: CPTensor((None, f))), ("cp_to_tensor", lambda: cp_to_tensor((None, f)))]
    elif which in ("cp-columns-one", "cp-weights-one"):
        # the mismatch that broadcasting hides: one factor with a single column (or a single weight) in a rank-R set; every entry point
        # has to reject it, also the ones that never multiply that factor with the others (the unfolding along its own mode)
        R = max(R, 2)
        f = [A([s, R]) for s in shp]
        k = int(rs.randint(order))
        w = None
        if which == "cp-columns-one":
            f[k] = A([shp[k], 1])
        else:
            w = A([1], "float64", "gauss")
        import tensorly.cp_tensor as _cpm
        attempts = [("CPTensor", lambda: CPTensor((w, f))), ("cp_to_tensor", lambda: cp_to_tensor((w, f))), ("cp_to_vec", lambda: _cpm.cp_to_vec((w, f)))] + [
            ("cp_to_unfolded", (lambda m_: (lambda: _cpm.cp_to_unfolded((w, f), m_)))(m_)) for m_ in range(order)]
    elif which == "cp-weights":
        f = [A([s, R]) for s in shp]
        w = A([R + 1], "float64", "gauss")
        attempts = [("CPTensor", lambda: CPTensor((w, f))), ("cp_to_tensor", lambda: cp_to_tensor((w, f)))]
    elif which == "cp-weights-2d":
        # weights stored as a column (R, 1) (e.g. from loadmat / keepdims): not a valid weight vector; the dangerous case is a
        # mode whose size equals the rank, where broadcasting silently scales rows instead of components
        shp2 = list(shp)
        shp2[int(rs.randint(order))] = R
        shp2[0] = R if rs.rand() < 0.5 else shp2[0]
        f = [A([s, R]) for s in shp2]
        w = A([R, 1], "float64", "gauss")
        attempts = [("CPTensor", lambda: CPTensor((w, f))), ("cp_to_tensor", lambda: cp_to_tensor((w, f))), ("cp_to_unfolded", lambda: __import__("tensorly").cp_tensor.cp_to_unfolded((w, f), 0)),
                    ("cp_norm", lambda: __import__("tensorly").cp_tensor.cp_norm((w, f)))]
    elif which == "tucker-cols":
        rk = gen.shape(rs, order, 1, 3)
        core = A(rk)
        f = [A([s, r]) for s, r in zip(shp, rk)]
        k = int(rs.randint(order))
        f[k] = A([shp[k], rk[k] + 1])
        attempts = [("TuckerTensor", lambda: TuckerTensor((core, f))), ("tucker_to_tensor", lambda: tucker_to_tensor((core, f)))]
    elif which == "tucker-count":
        rk = gen.shape(rs, order, 1, 3)
        core = A(rk)
        f = [A([s, r]) for s, r in zip(shp, rk)][:-1]
        attempts = [("TuckerTensor", lambda: TuckerTensor((core, f)))]
    elif which in ("tt-boundary0", "tt-boundaryN", "tt-consecutive"):
        ranks = [1] + [int(rs.randint(1, 4)) for _ in range(order - 1)] + [1]
        cores = [A([ranks[k], shp[k], ranks[k + 1]]) for k in range(order)]
        if which == "tt-boundary0":
            cores[0] = A([2, shp[0], ranks[1]])
        elif which == "tt-boundaryN":
            cores[-1] = A([ranks[-2], shp[-1], 2])
        else:
            k = int(rs.randint(1, order))
            cores[k] = A([ranks[k] + 1, shp[k], ranks[k + 1]])
        attempts = [("TTTensor", lambda: TTTensor(cores)), ("tt_to_tensor", lambda: tt_to_tensor(cores))]
    elif which in ("tr-ring", "tr-consecutive"):
        ranks = [int(rs.randint(1, 4)) for _ in range(order)]
        ranks.append(ranks[0])
        cores = [A([ranks[k], shp[k], ranks[k + 1]]) for k in range(order)]
        if which == "tr-ring":
            cores[-1] = A([ranks[-2], shp[-1], ranks[0] + 1])
        else:
            k = int(rs.randint(1, order))
            cores[k] = A([ranks[k] + 1, shp[k], ranks[k + 1]])
        attempts = [("TRTensor", lambda: TRTensor(cores)), ("tr_to_tensor", lambda: tr_to_tensor(cores))]
    elif which in ("ttm-boundary", "ttm-consecutive"):
        n = 3
        left, right = gen.shape(rs, n, 1, 3), gen.shape(rs, n, 1, 3)
        ranks = [1, int(rs.randint(1, 3)), int(rs.randint(1, 4)), 1]
        cores = [A([ranks[k], left[k], right[k], ranks[k + 1]]) for k in range(n)]
        if which == "ttm-boundary":
            if rs.rand() < 0.5:
                cores[0] = A([2, left[0], right[0], ranks[1]])
            else:
                cores[-1] = A([ranks[-2], left[-1], right[-1], 2])
        else:
            cores[1] = A([ranks[1] + 1, left[1], right[1], ranks[2]])
        attempts = [("TTMatrix", lambda: TTMatrix(cores)), ("tt_matrix_to_tensor", lambda: tt_matrix_to_tensor(cores))]
    else:
        I, K = int(rs.randint(2, 5)), int(rs.randint(1, 4))
        J = [int(rs.randint(R + 1, R + 4)) for _ in range(I)]
        A_, B_, C_ = A([I, R]), A([R, R]), A([K, R])
        P = [gen.orth(rs, j, R) for j in J]
        if which == "p2-count":
            P = P[:-1]
        elif which == "p2-width":
            P[0] = gen.orth(rs, J[0], R - 1)
        elif which == "p2-nonorth":
            k = int(rs.randint(I))
            how = gen.choice(rs, ["perturbed", "shrunk", "zero-column", "negatively-correlated", "inflated"])
            if how == "perturbed":
                P[k] = P[k] + 1e-2 * rs.standard_normal(P[k].shape) + 0.01
            elif how == "shrunk":          # Gram = 0.25 I : every deviation from I is negative
                P[k] = 0.5 * P[k]
            elif how == "zero-column":
                P[k] = P[k].copy()
                P[k][:, int(rs.randint(R))] = 0
            elif how == "negatively-correlated":   # unit-norm columns with a negative inner product
                Q = P[k].copy()
                Q[:, 1] = Q[:, 1] - 0.5 * Q[:, 0]
                Q[:, 1] /= np.linalg.norm(Q[:, 1])
                P[k] = Q
            else:
                P[k] = 1.5 * P[k]
            which = which + "-" + how
        else:
            C_ = A([K, R + 1])
        tup = (None, (A_, B_, C_), P)
        attempts = [("Parafac2Tensor", lambda: p2.Parafac2Tensor(tup)), ("parafac2_to_tensor", lambda: p2.parafac2_to_tensor(tup)),
                    ("parafac2_to_slices", lambda: p2.parafac2_to_slices(tup))]
    for name, attempt in attempts:
        try:
            out = attempt()
        except (ValueError, IndexError) as e:  # rejected, as required
            ctx.count("invalid_rejected")
            ctx.count("invalid/%s/%s/%s" % (which, name, type(e).__name__))
        else:
            ctx.violation("C03:invalid-accepted:%s:%s" % (which, name),
                          "%s accepted a structurally invalid factor set (%s) under backend %s and returned %s" % (name, which, be, type(out).__name__),
                          {"which": which, "entry": name, "backend": be})
    ctx.nontriv({"invalid": which, "shp": shp, "R": R})
