#!/bin/bash
# usage: tools/revert_check.sh <fix-sha> <command...> : runs the command against a scratch copy of /repo with that fix reverted
sha="$1"; shift
p=$(mktemp /dev/shm/revert_XXXXXX.patch)
git -C /repo diff "$sha" "$sha^" > "$p"
"$(dirname "$(readlink -f "$0")")/with_patch.sh" "$p" "$@"
rc=$?
rm -f "$p"
exit $rc
