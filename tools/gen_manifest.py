#!/usr/bin/env python3
"""Regenerates /verif/MANIFEST.json from the table below (kept in one place so it is always valid)."""
import json
import os

HERE = os.path.dirname(os.path.dirname(os.path.abspath(__file__)))

CLAIMED = {
    # id: (technique, level text, level note, design ref)
    "C01": ("bounded-exhaustive runtime oracle: independent index-map monitor on real calls",
            "Every shape of the tier's bounded space x every mode/skip/ordered matricize split x 10 dtypes x 6 memory layouts (plus sampled splits of "
            "orders 6-24, reused shape lists, repeat calls after in-place edits of the same array object, earlier results re-compared after later calls) is "
            "executed on the real functions and compared bit-for-bit with an independently computed index map; because the "
            "operations are data-oblivious this decides the property for all values of those shapes. Beyond the bound: nothing.",
            "Trusted: NumPy indices/scatter, CPython. NumPy backend only.", "DESIGN.md §2 C01"),
    "C02": ("runtime formula monitor on dispatched tenalg calls + cross-backend differential",
            "Seeded workloads over enumerated option classes call the real dispatched functions under both tenalg backends; each "
            "result is compared with an explicit einsum index formula under a backward-error bound and the two backends with each "
            "other; operands of mixed dtypes, modes counted from the end, narrow index dtypes and weighting masks included. Held on the "
            "sampled cases only (orders 1-4, sizes 1-4).",
            "Trusted: numpy.einsum with explicit subscripts. Restrictions listed in evidence.assumptions.", "DESIGN.md §2 C02"),
    "C03": ("runtime formula monitor on conversions/views of factorised tensors; rejection monitor for invalid sets",
            "Seeded factor sets for six formats (tuple and wrapper form, both tenalg backends) are converted by the real code and "
            "compared with the defining contraction; every unfolding/vec/matrix/slice view, wrapper shape/rank and factor-based "
            "norm (CP, Tucker, TT, TR wrappers; modes counted from either end; complex weights) is compared with the reference dense tensor, also after a core / the factors, weights or core of a wrapper were replaced by item "
            "assignment; 16 kinds of invalid sets must raise ValueError/IndexError. Sampled, small sizes.",
            "Trusted: numpy.einsum, explicit index-map unfolding.", "DESIGN.md §2 C03"),
    "C04": ("runtime before/after monitor: dense reconstruction preserved + canonical-form predicates on real transforms",
            "Seeded factorised tensors with the degenerate classes the statement names are pushed through each real transform; the "
            "dense tensor is recomputed independently before and after and the advertised canonical form is checked entrywise. "
            "Sampled (orders 2-4, sizes 1-5, ranks 1-4).",
            "Trusted: numpy.einsum, numpy.linalg. cp_permute_factors alignment asserted only where the best matching is unique.", "DESIGN.md §2 C04"),
    "C05": ("runtime postcondition monitor on (U,S,V) against float64 LAPACK reference",
            "Seeded matrices in seven structural classes x five method routes x n_eigenvecs 1..max+2/None x flip side x NNDSVD options; "
            "shapes, ordering, singular values, orthonormality, truncation error (on squares), sign rule and non-negativity are "
            "checked on every return value. Sampled up to 12x12; symeig orthonormality beyond the numerical rank is a listed finding.",
            "Trusted: numpy.linalg.svd in float64.", "DESIGN.md §2 C05"),
    "C12": ("runtime postcondition monitor on prox returns: reference minimiser, KKT/feasibility, idempotence, firm non-expansiveness, competitor search",
            "Seeded inputs in eight value classes x 14 operators x parameters; every returned point is judged against an independent "
            "exact reference (closed forms, sort-based simplex, PAVA, exact unimodal regression, LAPACK SVD), for every memory layout, "
            "read-only and (un)signed integer-dtype presentation of the input, and against random "
            "feasible competitors; projections re-applied; convex operators tested for firm non-expansiveness. Sampled, sizes <= 8x4.",
            "Trusted: the harness' reference algorithms (cross-checked by the competitor search), numpy.linalg.", "DESIGN.md §2 C12"),
    "C13": ("runtime KKT-certificate monitor on solver returns + objective gap to an independent NNLS reference",
            "Seeded well-conditioned problems (random, equicorrelated, circulant, integer-valued in integer arrays) with planted active/inactive constraints, cold, warm and far-away warm starts and l1/ridge penalties "
            "(private copies or shared read-only arrays, optionally after an aborted solve on the same arrays; ADMM with non-zero duals) "
            "are solved by the real HALS/FISTA/active-set/ADMM code under explicit budgets; each returned point gets a per-input "
            "optimality certificate (non-negativity, KKT from independent UtU/UtM, objective vs scipy NNLS). Convergence is "
            "restated as bounded progress; budget-exhausted-but-optimal-objective cases are counted inconclusive.",
            "Trusted: scipy.optimize.nnls, numpy.linalg. cond(U) <= 50.", "DESIGN.md §2 C13"),
    "C19": ("runtime consistency monitor on fitted regressors (predict vs exposed weights; metamorphic relations for CP-PLSR)",
            "Seeded regression problems are fitted by the real estimators; predictions on training and unseen data are compared with "
            "the contraction of the exposed weight tensor, the weight tensor with the reconstruction of the exposed factors and its "
            "vectorisation, also after a re-fit aborted by a failpoint in the sweep; CP-PLSR is checked for transform==scores (X and Y scores, "
            "twice, inputs untouched), unit loadings, constant-shift invariance (offsets up to 1e6 times the spread) and sample-permutation equivariance by re-fitting, long modes (> 500) included. Sampled.",
            "Trusted: numpy.einsum. CP-PLSR relations asserted on generic data to 1e-6 relative.", "DESIGN.md §2 C19"),
    "C20": ("runtime optimality monitor: brute force over all R! matchings; invariance and definition checks on real metric calls",
            "Seeded factor sets (generic, near-copies, permuted+rescaled copies with all permutations for R<=4) are scored by the real "
            "metrics; the returned score is compared with the maximum over all matchings, the returned permutation must attain it and "
            "recover planted permutations (references as objects, tuples or objects grown in place); correlation index range/zero-iff-equivalent/definition/invariance to pre-normalised sets; error metrics vs definitions over "
            "axis arguments; leverage scores a float64 distribution; zero columns rejected. Sampled, R <= 6.",
            "Trusted: exhaustive enumeration of matchings, NumPy definitions.", "DESIGN.md §2 C20"),
    "C06": ("iterate recorders (deterministic prefix runs + deep-copying callbacks) with from-scratch error recomputation",
            "For each seeded (algorithm, data class, rank, option set) configuration the real algorithm is run with n_iter_max=1..K, "
            "once more stopped by its tolerance (and capped exactly at the sweep where the tolerance fires), masked CP-ALS, complex data and data in narrow integer dtypes included, and (where "
            "offered) with a callback that deep-copies the iterate; a quarter of the runs go through the estimator classes (half of them with the estimator's own defaults), an eighth with "
            "verbose output, a sixteenth with the einsum tensor algebra selected; every reported "
            "value is compared (on squares, absolute-value scale) with the independently recomputed error of the iterate it belongs "
            "to; lists must be prefixes of each other and have one value per sweep. 11 algorithms, orders 2-4, sizes 2-6, ranks 1-3.",
            "Trusted: independent einsum reconstructions. Masked variants excluded (not in the statement).", "DESIGN.md §2 C06"),
    "C07": ("iterate recorders (prefix runs, hals_nnls callback, re-fitted regressors) with from-scratch objective recomputation and a conditioning guard",
            "For every consecutive pair of sweeps of CP-ALS (plain/normalised/line search/ridge), HALS CP, HOOI, PARAFAC2 (+-nn, +-line search), "
            "TR-ALS, CMTF, masked CP-ALS (observed misfit), PARAFAC2 warm starts, hals_nnls and the CP/Tucker regressors the objective is "
            "recomputed independently and must not rise beyond "
            "rounding slack when every block normal matrix has cond <= 1e6; unpenalised reported sequences must be non-increasing. "
            "Sampled; skipped (ill-conditioned) pairs are counted and capped at 35%.",
            "Trusted: independent reconstructions; the measurable definition of 'well conditioned'.", "DESIGN.md §2 C07"),
    "C08": ("runtime structural postcondition monitor on returned decomposition objects, on both stopping paths",
            "Seeded configurations over 10 decomposition entry points, rank specifications (int/list/'same'/fraction), initialisations, "
            "iteration caps 0..K and tolerances that force convergence stops; shapes vs independently derived ranks, boundary ranks, "
            "orthonormality, core = projection (also from non-orthonormal user starts), TT left-orthogonality, PARAFAC2 projections/cross-products and the normalisation "
            "contract (CP, both non-negative Tucker algorithms, PARAFAC2 with the scale judged against a twin run) are checked on every returned object. Sampled, orders 2-5.",
            "Trusted: independent rank derivations for int/list specs and the harness' own bisection for 'same'/fractions.", "DESIGN.md §2 C08"),
    "C09": ("runtime error-bound monitor: decomposition error vs independently computed singular-value tails of the input's unfoldings",
            "Seeded tensors (generic, exactly low multilinear/TT rank, rank-deficient, integer; orders 2-5) x rank vectors from all-ones "
            "to beyond the mode sizes x exact SVD methods x HOOI sweeps x every TR start mode; the squared error of the real "
            "decomposition must be ~0 when the requested ranks discard no tail, at most the sum of the tails they discard and at least the largest single "
            "tail of the returned ranks, and returned ranks never exceed requested ones; partial_tucker on any subset of modes and square symmetric/skew unfoldings included. Data in extreme units, complex data and a few "
            "large unfoldings (hundreds of rows and columns) included. Sampled.",
            "Trusted: numpy.linalg.svd (float64) of explicit unfoldings; the Tucker/TT quasi-optimality theorems.", "DESIGN.md §2 C09"),
    "C10": ("runtime postcondition monitor (>= 0, no NaN, no slack) on returned factors/weights/core + live monitors on the inner NNLS solvers",
            "Seeded configurations of the six non-negative algorithms on signed / non-negative / sparse / integer / all-negative tensors "
            "with SVD, random and non-negative user initialisations, normalisation, sparsity, partial non-negativity and iteration "
            "caps 0..12, dictionary keys counted from either end, one estimator fitted on tensors of different orders; every declared array of every returned object is checked, and hals_nnls / fista / active_set_nnls / "
            "make_svd_non_negative are wrapped (identity re-binding) so their returns are checked while those runs execute.",
            "No slack: -1e-300 or NaN is a violation. PARAFAC2 mode 1 exempt as documented.", "DESIGN.md §2 C10"),
    "C11": ("runtime feasibility monitor on the factors returned by constrained_parafac / ConstrainedCP; rejection monitor for double constraints",
            "Seeded configurations over all 8 hard constraint kinds x scalar / list / list-with-holes / dict (any key order, a parameter per mode) specifications over subsets of "
            "modes, mixed kinds on disjoint modes, signed and non-negative data, SVD/random/user inits and outer/inner budgets "
            "{0,1,3,10}x{1,3,10}; every constrained, updated mode of every returned CP tensor is tested against the operator's "
            "documented set; requests constraining a mode twice must raise ValueError at every budget, start and entry point. Sampled, orders 3-4.",
            "Order relations with no slack; sums/norms with slack scaled to the data magnitude.", "DESIGN.md §2 C11"),
    "C14": ("runtime differential monitor: zero-budget result vs init tensor, weighted vs weight-absorbed starts, bitwise fixed-mode comparison",
            "Seeded user initialisations (unit / positive / negative / mixed weights; tuple, list and wrapper forms) for the seven "
            "algorithms that accept one; the n_iter_max=0 result must represent the init tensor, runs started from (weights, factors) "
            "and from the weight-absorbed form must agree after 1-3 sweeps (with guards for ill-posed sweeps), fixed-mode factors must "
            "be bit-identical and all-fixed must return the init. Sampled, orders 2-4.",
            "Non-negative algorithms only with non-negative inits; Tucker fixed factors orthonormal.", "DESIGN.md §2 C14"),
    "C16": ("global-RNG state tracer + bitwise differential of repeated (sequential, fresh-process and concurrent with statement-level yield injection) seeded calls",
            "All 30 seed-accepting entry points (random generators, every randomly initialised decomposition, randomized SVD, sampled "
            "variants, TT-cross, regressors, initialisers) are called twice with the same integer seed and twice with identically "
            "seeded RandomState objects while the harness reseeds and advances the global generator in between; outputs must be "
            "bit-identical and numpy.random.get_state() unchanged across integer-seeded calls; seed-free functions must repeat "
            "exactly. A quarter of the second calls run in a fresh interpreter; estimators are re-fitted and cloned; and in half the cases "
            "three threads (two with the same seed) make the call at once with sys.monitoring LINE callbacks yielding at every statement "
            "boundary inside tensorly: every result must equal the call made alone. Vacuity guard: the output must change with seed+1 (counted).",
            "Bitwise comparison of every array reachable from the return value.", "DESIGN.md §2 C16"),
    "C18": ("dtype tracer on every array reachable from return values",
            "115 entry points (tensor algebra, conversions/transforms, SVD routes, 34 decomposition configurations incl. masks of another dtype, "
            "14 proximal operators, NNLS/ADMM solvers incl. the active-set restart path, regressors, random generators, initialisers, contrib "
            "decompositions, estimator classes, wrapper methods, preprocessing, metrics) are called with float32, float64 and (where "
            "conjugation is handled) complex128 inputs over seeded shapes/options; every floating array or NumPy scalar reachable "
            "from the result must carry the input dtype (singular values of complex input may be real); a third of the tensor-algebra-dependent entry points also run with the einsum tensor algebra selected. Sampled.",
            "Documented exemptions only (leverage scores float64, integer outputs, Python floats).", "DESIGN.md §2 C18"),
    "C17": ("history recording at the API boundary checked step-by-step against an executable non-deterministic reference model; bounded-exhaustive "
            "operation sequences + random histories + free-running stress with yield injection",
            "Worker threads execute set_backend / backend_context enter / exit (normal, by exception, newest- or oldest-first; a third of the operations inside a contextvars.Context.run callback) / rejected selections and rejected context entries one operation "
            "at a time under a controller; after every operation all threads report the backend they see (also under a copy of the acting thread's execution context), its identity and the instance "
            "that executed a dispatched call (for the tenalg manager also the package the reached implementation comes from); backends selected by name or as objects; the set of model states consistent with all observations must stay non-empty. All sequences "
            "up to length 4 (quick) / 5 (thorough) over 2 threads x 2 backends for both managers, random histories over 3 threads x 3 "
            "backends, cross-manager independence, and stress runs (switch interval 1e-6, sys.monitoring LINE yields inside set_backend, "
            "backend_context, current_backend and the dispatch wrapper) asserting only schedule-independent invariants: own view and the "
            "backend that executes a dispatched call.",
            "Stub backends (NumpyBackend subclasses named cupy/jax) stand in for uninstalled ones; GIL-atomic bytecodes not interleaved.", "DESIGN.md §2 C17"),
    "C15": ("aliasing/mutation sanitizer: byte-level argument snapshots before/after every depth-0 call of wrapped public entry points; fault injection",
            "~230 public functions, estimator methods and tensor-object methods (the object itself watched for the non-mutating ones) are wrapped by identity re-binding; for every call made by the harness each "
            "mutable argument (array bytes/dtype/shape and the base buffer of views, container identities, wrapper attributes) is "
            "snapshotted before and compared after the call returns or raises. Workloads: hostile argument kinds (views, read-only, "
            "lists/tuples/wrappers, masks, option lists, user inits), raising callbacks and backend failpoints (solve/svd/qr/dot/lstsq "
            "raising on their n-th call), a generator for every public entry point no other workload calls directly (audited from the per-entry "
            "call counts), and the workloads of 12 other properties replayed under the sanitizer.",
            "In-place parameters whitelisted by parameter (copy=False mode products, hals_nnls V, index_update).", "DESIGN.md §2 C15"),
}

PENDING_REASON = "check not built yet in this session; see DESIGN.md §2 for the planned monitor"


def main():
    props = [json.loads(l) for l in open(os.path.join(HERE, "properties.jsonl"))]
    checks, na = [], []
    for p in props:
        pid = p["id"]
        if pid in CLAIMED:
            tech, text, note, ref = CLAIMED[pid]
            checks.append({
                "property_id": pid,
                "quick_cmd": "./check %s --tier quick" % pid,
                "thorough_cmd": "./check %s --tier thorough" % pid,
                "evidence_file": "evidence/%s.json" % pid,
                "replay_cmd_template": "./check %s --replay {path}" % pid,
                "engine": "tlv",
                "level_claimed": {"category": "exploration", "text": text, "design_ref": ref},
                "level_note": note,
                "technique": tech,
            })
        else:
            na.append({"property_id": pid, "reason": NA.get(pid, PENDING_REASON)})
    man = {
        "version": 1,
        "setup_cmd": "/venv/bin/python -c \"import numpy, scipy; print('tlv needs only the repository interpreter; nothing to build')\"",
        "hooks": {
            "guard": "TENSORLY_VERIF",
            "enable": "no source hooks: monitors are installed from the harness by identity-based re-binding (tlv/core/probe.py); "
                      "checks import /repo's working tree in fresh interpreters",
            "baseline_off_cmd": "cd /repo && /venv/bin/python -m pytest -ra -q -p no:cacheprovider --timeout=900 --continue-on-collection-errors",
            "source_commits": [],
            "add_only": True,
        },
        "engines": [{"name": "tlv", "path": "tlv/", "serves_properties": sorted(CLAIMED),
                     "kind_free_text": "runtime monitoring harness: sharded workloads on the real code, independent oracles, "
                                       "observation floors, mechanism-keyed known findings"}],
        "checks": checks,
        "not_applicable": na,
        "notes": "Runtime monitoring only (see DESIGN.md). exit 0 held / 1 VIOLATION / 2 inconclusive (floors not met, worker lost).",
    }
    with open(os.path.join(HERE, "MANIFEST.json"), "w") as f:
        json.dump(man, f, indent=1)
    print("wrote MANIFEST.json: %d checks, %d not_applicable" % (len(checks), len(na)))


NA = {}

if __name__ == "__main__":
    main()
