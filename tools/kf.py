#!/usr/bin/env python3
"""append an entry to known_findings.json: tools/kf.py <prop> <status open|fixed> <key> <commit|-> <what...>"""
import json, sys
import os
p = os.path.join(os.path.dirname(os.path.dirname(os.path.abspath(__file__))), "known_findings.json")
d = json.load(open(p))
prop, status, key, commit = sys.argv[1:5]
what = " ".join(sys.argv[5:])
e = {"property": prop, "key": key, "status": status, "what": what}
if commit != "-":
    e["commit"] = commit
    e["line"] = "fixed: property=%s %s %s" % (prop, commit, what)
d["findings"] = [x for x in d["findings"] if not (x["property"] == prop and x["key"] == key)] + [e]
json.dump(d, open(p, "w"), indent=1)
print("ok", len(d["findings"]))
