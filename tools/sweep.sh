#!/bin/bash
# usage: tools/sweep.sh <tier> <seeds...>  : runs every check for every seed, prints one line per (check, seed)
tier="$1"; shift
for seed in "$@"; do
  for c in C01 C02 C03 C04 C05 C06 C07 C08 C09 C10 C11 C12 C13 C14 C15 C16 C17 C18 C19 C20; do
    t0=$(date +%s)
    out=$(PYTHONHASHSEED=0 ./check $c --tier $tier --seed $seed 2>&1); rc=$?
    t1=$(date +%s)
    echo "$c seed=$seed tier=$tier rc=$rc wall=$((t1-t0))s $(echo "$out" | grep -E 'VIOLATION|INCONCLUSIVE' | head -3 | tr '\n' ' ' | cut -c1-300)"
    if [ $rc -ne 0 ]; then echo "$out" | grep -E "key=|INCONCLUSIVE" | head -5 | cut -c1-400; fi
  done
done
