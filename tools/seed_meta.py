#!/usr/bin/env python3
"""tools/seed_meta.py <eval-log> : writes /verif/seeded/<id>/meta.json from the JSON result lines of tools/seed_eval.py"""
import json, os, re, sys
HERE = os.path.dirname(os.path.dirname(os.path.abspath(__file__)))
for log in sys.argv[1:]:
    for line in open(log):
        if not line.startswith('{"dir"'):
            continue
        d = json.loads(line)
        sid = os.path.basename(d["dir"])
        notes = os.path.join(d["dir"], "notes.md")
        txt = open(notes).read() if os.path.exists(notes) else ""
        m = re.search(r"(?im)^\W*\**(trigger|needed to manifest|needs)\**[^\n]*", txt)
        meta = {
            "id": sid,
            "property": sid.split("-")[0],
            "origin": "independent sub-agent given only the property text and a scratch worktree of /repo (see notes.md)",
            "what_it_needs_to_manifest": (m.group(0).strip(" -*") if m else "see notes.md")[:600],
            "confirmed_by_me": {
                "command": "tools/seed_eval.py seeded/%s --checks %s" % (sid, ",".join(d.get("checks", {}).keys())),
                "patch_applies_to_scratch_copy_of_repo": d.get("patch") == "applied",
                "demo_exit_on_unchanged_repo": d.get("demo_unchanged_exit"),
                "demo_exit_on_patched_copy": d.get("demo_patched_exit"),
                "repository_suite_on_patched_copy": d.get("tests"),
                "repository_suite_still_passes": d.get("tests_ok"),
            },
            "checks_run_quick_tier": {c: {"exit": v["rc"], "violation_keys": v["keys"]} for c, v in d.get("checks", {}).items()},
            "caught_by": d.get("caught_by", []),
        }
        old = {}
        mp = os.path.join(d["dir"], "meta.json")
        if os.path.exists(mp):
            old = json.load(open(mp))
            # a re-evaluation run with --no-tests keeps the repository-suite result of the earlier evaluation, and extra fields
            if "tests" not in d:
                for k in ("repository_suite_on_patched_copy", "repository_suite_still_passes"):
                    meta["confirmed_by_me"][k] = old.get("confirmed_by_me", {}).get(k)
                meta["confirmed_by_me"]["repository_suite_note"] = "suite result carried over from the first evaluation of this change (this re-evaluation only re-ran the demo and the checks)"
            for k, v in old.items():
                if k not in meta and k != "history":
                    meta[k] = v
            # keep the history of earlier evaluations (before checks were strengthened)
            hist = old.get("history", [])
            hist.append({"caught_by": old.get("caught_by"), "checks_run_quick_tier": old.get("checks_run_quick_tier")})
            meta["history"] = hist
        json.dump(meta, open(mp, "w"), indent=1)
        print(sid, "caught_by", meta["caught_by"], "tests_ok", d.get("tests_ok"))
