#!/bin/bash
# usage: tools/with_patch.sh <patch.diff> <command...>
# Copies /repo's working tree (no .git) to a scratch dir in /dev/shm, applies the patch there, runs the command
# with VERIF_REPO pointing at it, removes the scratch dir. /repo itself is never touched.
set -u
patch="$(readlink -f "$1")"; shift
d=$(mktemp -d /dev/shm/tlvmut_XXXXXX)
rsync -a --exclude .git --exclude '__pycache__' --exclude 'doc' --exclude 'examples' /repo/ "$d/"
( cd "$d" && patch -p1 --no-backup-if-mismatch -s < "$patch" ) || { echo "PATCH FAILED"; rm -rf "$d"; exit 99; }
VERIF_REPO="$d" TLV_EVIDENCE_DIR="$d/_evidence" "$@"
rc=$?
rm -rf "$d"
exit $rc
