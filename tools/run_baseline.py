#!/usr/bin/env python3
"""Runs the repository's own suite (guard off) with xdist and compares with BASELINE.json's stable_pass list.
usage: tools/run_baseline.py [repo_dir]   -> exit 0 iff every stable_pass test passed."""
import json, os, subprocess, sys, tempfile
import xml.etree.ElementTree as ET
repo = sys.argv[1] if len(sys.argv) > 1 else "/repo"
base = json.load(open("/root/.vp/BASELINE.json"))
stable = set(base["stable_pass"])
fd, xml = tempfile.mkstemp(suffix=".xml", dir="/dev/shm"); os.close(fd)
env = dict(os.environ, PYTHONDONTWRITEBYTECODE="1")
env.pop("TENSORLY_VERIF", None)
p = subprocess.run(["/venv/bin/python", "-m", "pytest", "-q", "-p", "no:cacheprovider", "-p", "no:randomly", "-n", "16", "--timeout=900",
                    "--continue-on-collection-errors", "--junitxml=" + xml], cwd=repo, env=env, capture_output=True, text=True)
passed = set()
for tc in ET.parse(xml).getroot().iter("testcase"):
    if not any(ch.tag in ("failure", "error", "skipped") for ch in tc):
        passed.add("%s::%s" % (tc.get("classname"), tc.get("name")))
os.unlink(xml)
missing = sorted(stable - passed)
print(p.stdout.strip().splitlines()[-1] if p.stdout.strip() else p.stderr[-500:])
print("stable_pass=%d passed_now=%d missing=%d" % (len(stable), len(passed & stable), len(missing)))
for m in missing[:30]:
    print("  NOT PASSING:", m)
sys.exit(1 if missing else 0)
