#!/bin/bash
# usage: [SEED_EVAL_FLAGS=--no-tests] tools/seed_batch.sh <ids...>   e.g. C07-A C07-B ; evaluates /verif/seeded/<id>/ with owner + related checks
declare -A REL=( [C01]="C01" [C02]="C02,C03" [C03]="C03,C04" [C04]="C04,C03" [C05]="C05,C09" [C06]="C06,C07" [C07]="C07,C06" [C08]="C08,C14" [C09]="C09,C08" [C10]="C10" [C11]="C11,C12" [C12]="C12,C11" [C13]="C13,C10" [C14]="C14,C15" [C15]="C15" [C16]="C16" [C17]="C17" [C18]="C18" [C19]="C19" [C20]="C20" )
for id in "$@"; do
  prop="${id%%-*}"
  echo "=== $id (checks ${REL[$prop]})"
  python3 /verif/tools/seed_eval.py /verif/seeded/$id --checks "${REL[$prop]}" $SEED_EVAL_FLAGS 2>&1 | tail -4 | cut -c1-1500
done
