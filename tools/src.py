#!/usr/bin/env python3
"""print python source without docstrings (keeps line numbers)"""
import ast, sys
for path in sys.argv[1:]:
    src = open(path).read()
    tree = ast.parse(src)
    drop = set()
    for node in ast.walk(tree):
        if isinstance(node, (ast.FunctionDef, ast.ClassDef, ast.Module, ast.AsyncFunctionDef)):
            b = node.body
            if b and isinstance(b[0], ast.Expr) and isinstance(getattr(b[0], "value", None), ast.Constant) and isinstance(b[0].value.value, str):
                for ln in range(b[0].lineno, b[0].end_lineno + 1):
                    drop.add(ln)
    print("#### " + path)
    for i, line in enumerate(src.splitlines(), 1):
        if i in drop or not line.strip():
            continue
        print("%4d %s" % (i, line))
