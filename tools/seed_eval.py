#!/usr/bin/env python3
"""Evaluate a seeded change: tools/seed_eval.py <dir with patch.diff [+ demo.py]> [--checks C01,C02|all] [--tier quick] [--no-tests]

Copies /repo's working tree (no .git) to a scratch dir, applies the patch there, then
  1. runs demo.py against /repo (must exit 0) and against the patched copy (must exit != 0),
  2. runs the repository's own suite on the patched copy (must still pass: missing == 0),
  3. runs the requested checks with VERIF_REPO pointing at the patched copy and reports which raise VIOLATION.
/repo itself is never modified. Prints a JSON summary on the last line.
"""
import argparse
import json
import os
import shutil
import subprocess
import sys
import tempfile

HERE = os.path.dirname(os.path.dirname(os.path.abspath(__file__)))
ALL = ["C%02d" % i for i in range(1, 21)]


def main():
    ap = argparse.ArgumentParser()
    ap.add_argument("dir")
    ap.add_argument("--checks", default="all")
    ap.add_argument("--tier", default="quick")
    ap.add_argument("--no-tests", action="store_true")
    ap.add_argument("--seed", default="0")
    a = ap.parse_args()
    d = os.path.abspath(a.dir)
    patch = os.path.join(d, "patch.diff")
    # a repository fix made after the change was produced may touch the same lines: the same change re-applied by hand to the
    # current tree is kept next to the original as patch.rebased.diff
    if os.path.exists(os.path.join(d, "patch.rebased.diff")):
        patch = os.path.join(d, "patch.rebased.diff")
    demo = os.path.join(d, "demo.py")
    scratch = tempfile.mkdtemp(prefix="tlvseed_", dir="/dev/shm")
    res = {"dir": d}
    try:
        subprocess.run(["rsync", "-a", "--exclude", ".git", "--exclude", "__pycache__", "--exclude", "doc", "--exclude", "examples", "/repo/", scratch + "/"], check=True)
        p = subprocess.run(["patch", "-p1", "--no-backup-if-mismatch", "-s", "-i", patch], cwd=scratch, capture_output=True, text=True)
        if p.returncode != 0:
            res["patch"] = "FAILED: " + (p.stdout + p.stderr)[-300:]
            print(json.dumps(res))
            return 2
        res["patch"] = "applied"
        res["patch_file"] = os.path.basename(patch)
        env = dict(os.environ, PYTHONDONTWRITEBYTECODE="1", PYTHONWARNINGS="ignore")
        if os.path.exists(demo):
            r0 = subprocess.run(["/venv/bin/python", demo], cwd="/repo", env=dict(env, PYTHONPATH="/repo"), capture_output=True, text=True, timeout=1800)
            r1 = subprocess.run(["/venv/bin/python", demo], cwd=scratch, env=dict(env, PYTHONPATH=scratch), capture_output=True, text=True, timeout=1800)
            res["demo_unchanged_exit"] = r0.returncode
            res["demo_patched_exit"] = r1.returncode
            res["demo_patched_msg"] = (r1.stdout + r1.stderr).strip()[-300:]
        if not a.no_tests:
            t = subprocess.run([sys.executable, os.path.join(HERE, "tools", "run_baseline.py"), scratch], capture_output=True, text=True)
            res["tests"] = t.stdout.strip().splitlines()[-1] if t.returncode == 0 else "BROKEN: " + t.stdout.strip()[-400:]
            res["tests_ok"] = t.returncode == 0
        checks = ALL if a.checks == "all" else a.checks.split(",")
        caught = {}
        for c in checks:
            r = subprocess.run([os.path.join(HERE, "check"), c, "--tier", a.tier, "--seed", a.seed], cwd=HERE, env=dict(env, VERIF_REPO=scratch, TLV_EVIDENCE_DIR=os.path.join(scratch, "_evidence")), capture_output=True, text=True)
            keys = [l.strip().split(" count=")[0].replace("key=", "") for l in r.stdout.splitlines() if l.strip().startswith("key=")]
            caught[c] = {"rc": r.returncode, "keys": keys[:6]}
            print("  %s rc=%d %s" % (c, r.returncode, keys[:3]), flush=True)
        res["checks"] = caught
        res["caught_by"] = [c for c, v in caught.items() if v["rc"] == 1]
        res["inconclusive"] = [c for c, v in caught.items() if v["rc"] == 2]
    finally:
        shutil.rmtree(scratch, ignore_errors=True)
    print(json.dumps(res))
    return 0


if __name__ == "__main__":
    sys.exit(main())
